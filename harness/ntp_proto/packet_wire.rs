//! verification harness module of the `wire` cluster (C23, C24, C25), included into
//! `ntp-proto/src/packet/mod.rs` through the guarded hook `verif_packet`.
//!
//! Streams (VERIF_STREAM):
//!   c23_structured — byte-level packets built field by field (all field kinds, boundary lengths, real
//!                    AES-SIV encrypted fields over generated plaintext, real cookies under a key set),
//!                    lightly perturbed, decoded under the three key contexts
//!   c23_malformed  — the same packets heavily damaged (truncation, bit flips, length-field lies, splices,
//!                    random bytes), lengths 0..4096
//!   c24_roundtrip  — b → p → b1 → q → b2 without keys, compared byte for byte with the model
//!   c25_tamper     — valid NTS requests/responses; EVERY single-bit flip and 3 byte replacements per byte
//!                    position decoded by the real code and by the model (ideal AEAD oracle table)
//!
//! Op lines (the model driver `drv-wire` reads the same lines):
//!   draftver <hex>                         the crate's DRAFT_VERSION constant
//!   ctx none | ctx key <hex> | ctx keyset off=<n> keys=<hex,hex,..>
//!   oracle key=<hex> nonce=<hex> aad=<hex> ct=<hex> pt=<hex>      one real encryption of this case
//!   parse <hex>                            NtpPacket::deserialize under the current context
//!   rt <hex>                               the C24 round trip
#![allow(clippy::all, clippy::pedantic)]

#[path = "../common/mod.rs"]
mod common;

use super::super::*;
use crate::keyset::{DecodedServerCookie, KeySet, KeySetProvider};
use crate::nts::AeadAlgorithm;
use common::{hex, unhex, Rng, Run};
use std::panic::{catch_unwind, AssertUnwindSafe};
use std::sync::Arc;

// ---------------------------------------------------------------------------------------------
// canonical dumps (must match lean/Driver/Wire.lean)

fn dur_i64(d: NtpDuration) -> i64 {
    // NtpDuration's field is private to time_types; recover the value through its total order
    let (mut lo, mut hi) = (i64::MIN as i128, i64::MAX as i128);
    while lo < hi {
        let mid = (lo + hi).div_euclid(2);
        if NtpDuration::from_fixed_int(mid as i64) < d {
            lo = mid + 1;
        } else {
            hi = mid;
        }
    }
    lo as i64
}

fn leap_idx(l: NtpLeapIndicator) -> u8 {
    match l {
        NtpLeapIndicator::NoWarning => 0,
        NtpLeapIndicator::Leap61 => 1,
        NtpLeapIndicator::Leap59 => 2,
        NtpLeapIndicator::Unknown => 3,
        NtpLeapIndicator::Unsynchronized => 4,
    }
}

fn mode_idx(m: NtpAssociationMode) -> u8 {
    match m {
        NtpAssociationMode::Reserved => 0,
        NtpAssociationMode::SymmetricActive => 1,
        NtpAssociationMode::SymmetricPassive => 2,
        NtpAssociationMode::Client => 3,
        NtpAssociationMode::Server => 4,
        NtpAssociationMode::Broadcast => 5,
        NtpAssociationMode::Control => 6,
        NtpAssociationMode::Private => 7,
    }
}

fn ts_u64(t: NtpTimestamp) -> u64 {
    u64::from_be_bytes(t.to_bits())
}

fn hdr34_str(tag: &str, h: &NtpHeaderV3V4) -> String {
    format!(
        "{}:l{},m{},{},{},{},{},{},{},{},{},{},{}",
        tag,
        leap_idx(h.leap),
        mode_idx(h.mode),
        h.stratum,
        h.poll.as_byte(),
        h.precision as u8,
        dur_i64(h.root_delay),
        dur_i64(h.root_dispersion),
        u32::from_be_bytes(h.reference_id.to_bytes()),
        ts_u64(h.reference_timestamp),
        ts_u64(h.origin_timestamp),
        ts_u64(h.receive_timestamp),
        ts_u64(h.transmit_timestamp)
    )
}

fn hdr_str(h: &NtpHeader) -> String {
    match h {
        NtpHeader::V3(h) => hdr34_str("v3", h),
        NtpHeader::V4(h) => hdr34_str("v4", h),
        NtpHeader::V5(h) => {
            let mode = match h.mode {
                v5::NtpMode::Request => 3,
                v5::NtpMode::Response => 4,
            };
            let ts = match h.timescale {
                v5::NtpTimescale::Utc => 0,
                v5::NtpTimescale::Tai => 1,
                v5::NtpTimescale::Ut1 => 2,
                v5::NtpTimescale::LeapSmearedUtc => 3,
            };
            let f = (h.flags.synchronized as u8) + 2 * (h.flags.interleaved_mode as u8) + 4 * (h.flags.authnak as u8);
            format!(
                "v5:l{},m{},{},{},{},ts{},e{},f{},{},{},sc{},cc{},{},{}",
                leap_idx(h.leap),
                mode,
                h.stratum,
                h.poll.as_byte(),
                h.precision as u8,
                ts,
                h.era.0,
                f,
                dur_i64(h.root_delay),
                dur_i64(h.root_dispersion),
                hex(&h.server_cookie.0),
                hex(&h.client_cookie.0),
                ts_u64(h.receive_timestamp),
                ts_u64(h.transmit_timestamp)
            )
        }
    }
}

fn ef_str(f: &ExtensionField) -> String {
    match f {
        ExtensionField::UniqueIdentifier(b) => format!("uid:{}", hex(b)),
        ExtensionField::NtsCookie(b) => format!("cookie:{}", hex(b)),
        ExtensionField::NtsCookiePlaceholder { cookie_length } => format!("ph:{}", cookie_length),
        ExtensionField::InvalidNtsEncryptedField => "inv".to_string(),
        ExtensionField::DraftIdentification(s) => format!("draft:{}", hex(s.as_bytes())),
        ExtensionField::Padding(n) => format!("pad:{}", n),
        ExtensionField::ReferenceIdRequest(r) => format!("rreq:{}:{}", r.payload_len(), r.offset()),
        ExtensionField::ReferenceIdResponse(r) => format!("rresp:{}", hex(r.bytes())),
        ExtensionField::Unknown { type_id, data } => format!("unk:{}:{}", type_id, hex(data)),
    }
}

fn ef_list_str(fs: &[ExtensionField]) -> String {
    if fs.is_empty() {
        "-".to_string()
    } else {
        fs.iter().map(ef_str).collect::<Vec<_>>().join(";")
    }
}

fn packet_str(p: &NtpPacket) -> String {
    let mac = match &p.mac {
        None => "none".to_string(),
        Some(m) => {
            let mut v = vec![];
            m.serialize(&mut v).unwrap();
            hex(&v)
        }
    };
    format!(
        "{} a=[{}] e=[{}] u=[{}] mac={}",
        hdr_str(&p.header),
        ef_list_str(&p.efdata.authenticated),
        ef_list_str(&p.efdata.encrypted),
        ef_list_str(&p.efdata.untrusted),
        mac
    )
}

fn cookie_str(c: &Option<DecodedServerCookie>) -> String {
    match c {
        None => "none".to_string(),
        Some(c) => format!("{}:{}:{}", u16::from(c.algorithm), hex(c.s2c.key_bytes()), hex(c.c2s.key_bytes())),
    }
}

fn perr_str<T>(e: &ParsingError<T>) -> String {
    match e {
        ParsingError::InvalidVersion(v) => format!("err:InvalidVersion:{}", v),
        ParsingError::IncorrectLength => "err:IncorrectLength".into(),
        ParsingError::MalformedNtsExtensionFields => "err:MalformedNtsExtensionFields".into(),
        ParsingError::MalformedNonce => "err:MalformedNonce".into(),
        ParsingError::MalformedCookiePlaceholder => "err:MalformedCookiePlaceholder".into(),
        ParsingError::DecryptError(_) => "err:DecryptError".into(),
        ParsingError::V5(v5::V5Error::InvalidDraftIdentification) => "err:V5InvalidDraftIdentification".into(),
        ParsingError::V5(v5::V5Error::MalformedTimescale) => "err:V5MalformedTimescale".into(),
        ParsingError::V5(v5::V5Error::MalformedMode) => "err:V5MalformedMode".into(),
        ParsingError::V5(v5::V5Error::InvalidFlags) => "err:V5InvalidFlags".into(),
    }
}

// ---------------------------------------------------------------------------------------------
// key contexts

enum Ctx {
    None,
    K256(AesSivCmac256),
    K512(AesSivCmac512),
    Set(Arc<KeySet>),
}

fn cipher_from_key(k: &[u8]) -> Option<Box<dyn Cipher>> {
    match k.len() {
        32 => Some(Box::new(AesSivCmac256::try_from(k).ok()?)),
        64 => Some(Box::new(AesSivCmac512::try_from(k.iter()).ok()?)),
        _ => None,
    }
}

/// key file image understood by `KeySetProvider::load`
fn keyset_from(keys: &[Vec<u8>], id_offset: u32, primary: u32) -> Arc<KeySet> {
    let mut img = vec![];
    img.extend_from_slice(&0u64.to_be_bytes());
    img.extend_from_slice(&id_offset.to_be_bytes());
    img.extend_from_slice(&primary.to_be_bytes());
    img.extend_from_slice(&(keys.len() as u32).to_be_bytes());
    for k in keys {
        img.extend_from_slice(k);
    }
    let (p, _) = KeySetProvider::load(&mut img.as_slice(), 8).expect("keyset image");
    p.get()
}

fn ctx_from_op(w: &[&str]) -> Option<Ctx> {
    match w {
        ["ctx", "none"] => Some(Ctx::None),
        ["ctx", "key", h] => {
            let k = unhex(h)?;
            match k.len() {
                32 => Some(Ctx::K256(AesSivCmac256::try_from(&k[..]).ok()?)),
                64 => Some(Ctx::K512(AesSivCmac512::try_from(k.iter()).ok()?)),
                _ => None,
            }
        }
        ["ctx", "keyset", rest @ ..] => {
            let off: u32 = common::kv(rest, "off")?.parse().ok()?;
            let keys: Vec<Vec<u8>> = common::kv(rest, "keys")?.split(',').map(|h| unhex(h)).collect::<Option<_>>()?;
            Some(Ctx::Set(keyset_from(&keys, off, 0)))
        }
        _ => None,
    }
}

fn deser_str(data: &[u8], ctx: &Ctx) -> (String, &'static str) {
    fn go<'a>(r: Result<(NtpPacket<'a>, Option<DecodedServerCookie>), PacketParsingError<'a>>) -> (String, &'static str) {
        match r {
            Ok((p, c)) => (format!("ok {} cookie={}", packet_str(&p), cookie_str(&c)), "ok"),
            Err(ParsingError::DecryptError(p)) => (format!("decrypterr {}", packet_str(&p)), "decrypterr"),
            Err(e) => (perr_str(&e), "err"),
        }
    }
    match ctx {
        Ctx::None => go(NtpPacket::deserialize(data, &NoCipher)),
        Ctx::K256(c) => go(NtpPacket::deserialize(data, c)),
        Ctx::K512(c) => go(NtpPacket::deserialize(data, c)),
        Ctx::Set(ks) => go(NtpPacket::deserialize(data, ks.as_ref())),
    }
}

/// decode under `catch_unwind`: a panic is the observation `panic`
fn parse_obs(data: &[u8], ctx: &Ctx) -> (String, &'static str) {
    match catch_unwind(AssertUnwindSafe(|| deser_str(data, ctx))) {
        Ok(r) => r,
        Err(_) => ("panic".to_string(), "panic"),
    }
}

// ---------------------------------------------------------------------------------------------
// byte-level packet builder

const T_UID: u16 = 0x104;
const T_COOKIE: u16 = 0x204;
const T_PH: u16 = 0x304;
const T_ENC: u16 = 0x404;
const T_DRAFT: u16 = 0xF5FF;
const T_PAD: u16 = 0xF501;
const T_RREQ: u16 = 0xF503;
const T_RRESP: u16 = 0xF504;

fn nm4(n: usize) -> usize {
    (n + 3) & !3
}

fn raw_field(ty: u16, flen: usize, body: &[u8], pad: bool) -> Vec<u8> {
    let mut v = vec![];
    v.extend_from_slice(&ty.to_be_bytes());
    v.extend_from_slice(&(flen as u16).to_be_bytes());
    v.extend_from_slice(body);
    if pad {
        while v.len() % 4 != 0 {
            v.push(0);
        }
    }
    v
}

fn body_len(rng: &mut Rng, ver: u8) -> usize {
    let l = match rng.below(19) {
        // large bodies: around the 512-byte Bloom filter size, and up to half the packet limit
        16 => rng.usize(509, 516),
        17 => *rng.pick(&[508usize, 512, 516, 1000, 1020, 1024]),
        18 => *rng.pick(&[1000usize, 2000, 2040, 3000]),
        0 => 0,
        1 => rng.usize(1, 3),
        2 => 4,
        3 => 8,
        4 => 12,
        5 => 16,
        6 => 20,
        7 => 24,
        8 => 28,
        9 => 32,
        10 => rng.usize(5, 40),
        11 => rng.usize(40, 120),
        12 => rng.usize(2, 3),
        _ => 4 * rng.usize(0, 10),
    };
    if ver == 4 && !rng.chance(1, 12) {
        nm4(l)
    } else {
        l
    }
}

/// one plain (non-encrypted) field; mostly well-formed
fn gen_field(rng: &mut Rng, ver: u8) -> Vec<u8> {
    let ty = match rng.below(14) {
        0 | 1 => T_UID,
        2 => T_COOKIE,
        3 | 4 => T_PH,
        5 => T_DRAFT,
        6 => T_PAD,
        7 | 8 => T_RREQ,
        9 => T_RRESP,
        10 => rng.below(65536) as u16,
        11 => *rng.pick(&[0x0104u16, 0x0105, 0x0203, 0x0305, 0x0403, 0x0405, 0xF500, 0xF502, 0xF505, 0xF5FE, 0]),
        12 => T_UID,
        _ => T_COOKIE,
    };
    let l = body_len(rng, ver);
    let body: Vec<u8> = match ty {
        T_PH => {
            let mut b = vec![0u8; l];
            if l > 0 && rng.chance(1, 8) {
                let i = rng.usize(0, l - 1);
                b[i] = 1 << rng.below(8);
            }
            b
        }
        T_DRAFT => {
            if rng.chance(1, 2) {
                v5::DRAFT_VERSION.as_bytes().to_vec()
            } else {
                let mut b: Vec<u8> = (0..l).map(|_| 0x20 + rng.below(0x5f) as u8).collect();
                if l > 0 && rng.chance(1, 4) {
                    let i = rng.usize(0, l - 1);
                    b[i] = *rng.pick(&[0u8, 0x7f, 0x80, 0xc3, 0xff]);
                }
                b
            }
        }
        T_PAD | T_RREQ if rng.chance(1, 2) => {
            let mut b = vec![0u8; l];
            if l >= 2 {
                b[0] = rng.below(3) as u8;
                b[1] = rng.next_u64() as u8;
            }
            b
        }
        _ => rng.bytes(l),
    };
    let mut flen = 4 + body.len();
    // length-field lies (rare)
    match rng.below(40) {
        0 => flen = flen.saturating_sub(rng.usize(1, 4)),
        1 => flen += rng.usize(1, 8),
        2 => flen = rng.usize(0, 3),
        _ => {}
    }
    raw_field(ty, flen, &body, !rng.chance(1, 30))
}

fn gen_fields(rng: &mut Rng, ver: u8, n: usize) -> Vec<u8> {
    let mut v = vec![];
    for _ in 0..n {
        let f = gen_field(rng, ver);
        // keep whole packets within the 4096-byte limit of the property's quantifier
        if v.len() + f.len() <= 3000 {
            v.extend(f);
        }
    }
    v
}

fn gen_header(rng: &mut Rng, ver: u8) -> Vec<u8> {
    let mut h = rng.bytes(48);
    let mode = if ver == 5 && !rng.chance(1, 10) { 3 + rng.below(2) as u8 } else { rng.below(8) as u8 };
    h[0] = ((rng.below(4) as u8) << 6) | ((ver & 7) << 3) | mode;
    if ver == 5 {
        if !rng.chance(1, 12) {
            h[12] = rng.below(4) as u8;
        }
        if !rng.chance(1, 12) {
            h[14] = 0;
            h[15] &= 7;
        }
    }
    h
}

/// real encryption: (nonce, ciphertext)
fn seal(cipher: &dyn Cipher, aad: &[u8], pt: &[u8]) -> (Vec<u8>, Vec<u8>) {
    let mut buf = pt.to_vec();
    buf.resize(pt.len() + 64, 0);
    let r = cipher.encrypt(&mut buf, pt.len(), aad).expect("encrypt");
    (
        buf[..r.nonce_length].to_vec(),
        buf[r.nonce_length..r.nonce_length + r.ciphertext_length].to_vec(),
    )
}

/// AES-SIV (CMAC-256 for a 32-byte key, CMAC-512 for a 64-byte key) called directly with a CHOSEN nonce of any
/// length: what a key holder other than this implementation may do (RFC 8915 only sets a minimum nonce length)
fn seal_with_nonce(key: &[u8], nonce: &[u8], aad: &[u8], pt: &[u8]) -> Vec<u8> {
    use aes_siv::{siv::Aes128Siv, siv::Aes256Siv, Key, KeyInit};
    if key.len() == 32 {
        Aes128Siv::new(Key::<Aes128Siv>::from_slice(key)).encrypt([aad, nonce], pt).expect("siv")
    } else {
        Aes256Siv::new(Key::<Aes256Siv>::from_slice(key)).encrypt([aad, nonce], pt).expect("siv")
    }
}

fn oracle_line(key: &[u8], nonce: &[u8], aad: &[u8], ct: &[u8], pt: &[u8]) -> String {
    format!("oracle key={} nonce={} aad={} ct={} pt={}", hex(key), hex(nonce), hex(aad), hex(ct), hex(pt))
}

fn enc_field(nonce: &[u8], ct: &[u8]) -> Vec<u8> {
    let mut body = vec![];
    body.extend_from_slice(&(nonce.len() as u16).to_be_bytes());
    body.extend_from_slice(&(ct.len() as u16).to_be_bytes());
    body.extend_from_slice(nonce);
    while body.len() % 4 != 0 {
        body.push(0);
    }
    body.extend_from_slice(ct);
    while body.len() % 4 != 0 {
        body.push(0);
    }
    raw_field(T_ENC, 4 + body.len(), &body, true)
}

struct Built {
    setup: Vec<String>, // ctx + oracle lines
    bytes: Vec<u8>,
    ctx_kind: &'static str,
}

fn rand_key(rng: &mut Rng, n: usize) -> Vec<u8> {
    rng.bytes(n)
}

/// A cookie sealed under server key `skey` (wire id `id`) whose plaintext is NOT `algorithm(2) s2c c2s`:
/// class 0 shorter by one, 1 longer by one, 2 longer by 16, 3 longer by 64, 4 empty, 5 a single byte,
/// 6 unknown algorithm id with the right size, 7 right algorithm with the other algorithm's key width,
/// 8 only the algorithm id.  Returns the cookie and its oracle line.
fn odd_cookie(rng: &mut Rng, skey: &[u8], id: u32, class: u64, klen: usize, s2c: &[u8], c2s: &[u8]) -> (Vec<u8>, String) {
    let alg: u16 = if klen == 32 { 15 } else { 17 };
    let mut pt = alg.to_be_bytes().to_vec();
    pt.extend_from_slice(s2c);
    pt.extend_from_slice(c2s);
    match class {
        0 => {
            pt.pop();
        }
        1 => pt.push(rng.next_u64() as u8),
        2 => pt.extend(rng.bytes(16)),
        3 => pt.extend(rng.bytes(64)),
        4 => pt.clear(),
        5 => pt.truncate(1),
        6 => {
            let other = *rng.pick(&[0u16, 1, 14, 16, 18, 30, 0xffff]);
            pt[0..2].copy_from_slice(&other.to_be_bytes());
        }
        7 => {
            let other_w = if klen == 32 { 64 } else { 32 };
            pt.truncate(2);
            pt.extend(rng.bytes(2 * other_w));
        }
        _ => pt.truncate(2),
    }
    let cipher = cipher_from_key(skey).expect("server keys are 64 bytes");
    let (nonce, ct) = seal(cipher.as_ref(), &[], &pt);
    let mut cookie = id.to_be_bytes().to_vec();
    cookie.extend_from_slice(&(ct.len() as u16).to_be_bytes());
    cookie.extend_from_slice(&nonce);
    cookie.extend_from_slice(&ct);
    let line = oracle_line(skey, &nonce, &[], &ct, &pt);
    (cookie, line)
}

/// a packet built field by field, with its key context and oracle table
fn build_packet(rng: &mut Rng) -> Built {
    let ver: u8 = match rng.below(20) {
        0 => 3,
        1..=9 => 4,
        10..=18 => 5,
        _ => rng.below(8) as u8,
    };
    let fver = if ver == 5 { 5 } else { 4 };
    let mut setup = vec![];
    let ctx_choice = rng.below(3);
    // session keys (c2s is what a server context recovers from the cookie, and what `ctx key` holds)
    let klen = if rng.chance(1, 2) { 32 } else { 64 };
    let c2s = rand_key(rng, klen);
    let s2c = rand_key(rng, klen);
    let session = cipher_from_key(&c2s).unwrap();
    let mut bytes = gen_header(rng, ver);
    let mut keyset: Option<(Arc<KeySet>, Vec<Vec<u8>>, u32, u32)> = None;
    let ctx_kind;
    match ctx_choice {
        0 => {
            setup.push("ctx none".to_string());
            ctx_kind = "none";
        }
        1 => {
            setup.push(format!("ctx key {}", hex(&c2s)));
            ctx_kind = "key";
        }
        _ => {
            let nkeys = rng.usize(1, 4);
            let keys: Vec<Vec<u8>> = (0..nkeys).map(|_| rand_key(rng, 64)).collect();
            let off = match rng.below(4) {
                0 => 0,
                1 => 1,
                2 => u32::MAX - rng.below(3) as u32,
                _ => rng.next_u64() as u32,
            };
            let primary = rng.below(nkeys as u64) as u32;
            let ks = keyset_from(&keys, off, primary);
            setup.push(format!("ctx keyset off={} keys={}", off, keys.iter().map(|k| hex(k)).collect::<Vec<_>>().join(",")));
            keyset = Some((ks, keys, off, primary));
            ctx_kind = "keyset";
        }
    }
    if ver == 3 {
        // no extension fields in v3: optional MAC
        let tail = match rng.below(6) {
            0 | 1 => 0,
            2 => 4,
            3 => 20,
            4 => rng.usize(1, 30),
            _ => 24,
        };
        bytes.extend(rng.bytes(tail));
        return Built { setup, bytes, ctx_kind };
    }
    let want_draft = ver == 5 && !rng.chance(1, 8);
    let mut draft_done = false;
    let n_pre = rng.usize(0, 4);
    let pre = gen_fields(rng, fver, n_pre);
    bytes.extend(pre);
    if want_draft && rng.chance(1, 2) {
        bytes.extend(raw_field(T_DRAFT, 4 + v5::DRAFT_VERSION.len(), v5::DRAFT_VERSION.as_bytes(), true));
        draft_done = true;
    }
    // cookie(s) for the key-set context
    let n_cookies = match rng.below(10) {
        0 => 0,
        1 => 2,
        _ => 1,
    };
    if let Some((ks, keys, _off, primary)) = &keyset {
        for _ in 0..n_cookies {
            if rng.chance(1, 3) {
                // a cookie that AUTHENTICATES under a current or old server key but whose plaintext has the wrong size
                let ki = rng.below(keys.len() as u64) as usize;
                let class = rng.below(9);
                let (cookie, line) = odd_cookie(rng, &keys[ki], (ki as u32).wrapping_add(*_off), class, klen, &s2c, &c2s);
                setup.push(line);
                let l = cookie.len();
                bytes.extend(raw_field(T_COOKIE, 4 + nm4(l), &cookie, true));
                continue;
            }
            let alg = if klen == 32 { AeadAlgorithm::AeadAesSivCmac256 } else { AeadAlgorithm::AeadAesSivCmac512 };
            let dc = DecodedServerCookie {
                algorithm: alg,
                s2c: cipher_from_key(&s2c).unwrap(),
                c2s: cipher_from_key(&c2s).unwrap(),
            };
            let mut cookie = ks.encode_cookie(&dc);
            let mut pt = u16::from(alg).to_be_bytes().to_vec();
            pt.extend_from_slice(&s2c);
            pt.extend_from_slice(&c2s);
            setup.push(oracle_line(&keys[*primary as usize], &cookie[6..22], &[], &cookie[22..], &pt));
            match rng.below(16) {
                0 => {
                    let i = rng.usize(0, cookie.len() - 1);
                    cookie[i] ^= 1 << rng.below(8);
                }
                1 => cookie.truncate(rng.usize(0, cookie.len())),
                2 => {
                    let n = rng.usize(1, 8);
                    cookie.extend(rng.bytes(n))
                }
                _ => {}
            }
            let l = cookie.len();
            bytes.extend(raw_field(T_COOKIE, 4 + nm4(l), &cookie, true));
        }
    } else if rng.chance(1, 3) {
        bytes.extend(raw_field(T_COOKIE, 4 + 100, &rng.bytes(100), true));
    }
    // the encrypted field
    if rng.chance(3, 4) {
        let n_in = rng.usize(0, 3);
        let mut pt = gen_fields(rng, fver, n_in);
        if rng.chance(1, 10) {
            // nested encrypted field / garbage plaintext
            if rng.chance(1, 2) {
                pt.extend(raw_field(T_ENC, 8, &[0, 0, 0, 0], true));
            } else {
                let n = rng.usize(1, 24);
                pt = rng.bytes(n);
            }
        }
        if want_draft && !draft_done && rng.chance(1, 3) {
            pt.extend(raw_field(T_DRAFT, 4 + v5::DRAFT_VERSION.len(), v5::DRAFT_VERSION.as_bytes(), true));
        }
        let use_other_key = rng.chance(1, 10);
        let other = rand_key(rng, klen);
        let (cipher, key): (Box<dyn Cipher>, &Vec<u8>) =
            if use_other_key { (cipher_from_key(&other).unwrap(), &other) } else { (cipher_from_key(&c2s).unwrap(), &c2s) };
        let _ = &session;
        let (nonce, ct) = seal(cipher.as_ref(), &bytes, &pt);
        setup.push(oracle_line(key, &nonce, &bytes, &ct, &pt));
        let mut f = enc_field(&nonce, &ct);
        // perturb the authenticator's own words
        match rng.below(24) {
            0 => f[5] = f[5].wrapping_add(1),                 // nonce length + 1
            1 => f[7] = f[7].wrapping_sub(1),                 // ciphertext length - 1
            2 => {
                let i = rng.usize(8, f.len() - 1);
                f[i] ^= 1 << rng.below(8);
            }
            3 => f[3] = f[3].wrapping_add(4),                 // field length + 4
            _ => {}
        }
        bytes.extend(f);
    }
    let n_post = rng.usize(0, 2);
    let post = gen_fields(rng, fver, n_post);
    bytes.extend(post);
    if want_draft && !draft_done {
        bytes.extend(raw_field(T_DRAFT, 4 + v5::DRAFT_VERSION.len(), v5::DRAFT_VERSION.as_bytes(), true));
    }
    if rng.chance(1, 6) {
        // a second encrypted field (authenticates everything before it, including the first)
        let pt = gen_fields(rng, fver, 1);
        let (nonce, ct) = seal(session.as_ref(), &bytes, &pt);
        setup.push(oracle_line(&c2s, &nonce, &bytes, &ct, &pt));
        bytes.extend(enc_field(&nonce, &ct));
    }
    // trailing MAC / leftovers
    let tail = match rng.below(10) {
        0..=4 => 0,
        5 => 4,
        6 => 20,
        7 => 24,
        8 => rng.usize(1, 28),
        _ => 28,
    };
    bytes.extend(rng.bytes(tail));
    Built { setup, bytes, ctx_kind }
}

fn damage(rng: &mut Rng, bytes: &mut Vec<u8>, heavy: bool) {
    let rounds = if heavy { rng.usize(1, 4) } else { 1 };
    for _ in 0..rounds {
        if bytes.is_empty() {
            break;
        }
        match rng.below(if heavy { 8 } else { 4 }) {
            0 => {
                let i = rng.usize(0, bytes.len() - 1);
                bytes[i] ^= 1 << rng.below(8);
            }
            1 => {
                let n = rng.usize(0, bytes.len());
                bytes.truncate(n);
            }
            2 => {
                // corrupt a length word of some field (walk the field chain as far as it goes)
                let mut offs = vec![];
                let mut o = 48;
                while o + 4 <= bytes.len() {
                    offs.push(o);
                    let l = u16::from_be_bytes([bytes[o + 2], bytes[o + 3]]) as usize;
                    if l < 4 {
                        break;
                    }
                    o += nm4(l);
                }
                if !offs.is_empty() {
                    let o = *rng.pick(&offs);
                    let l = u16::from_be_bytes([bytes[o + 2], bytes[o + 3]]);
                    let nl = match rng.below(6) {
                        0 => l.wrapping_add(1),
                        1 => l.wrapping_sub(1),
                        2 => l.wrapping_add(4),
                        3 => l.wrapping_sub(4),
                        4 => rng.below(8) as u16,
                        _ => *rng.pick(&[0xffffu16, 0xfffc, 0xfffd, 0x8000, 0]),
                    };
                    bytes[o + 2..o + 4].copy_from_slice(&nl.to_be_bytes());
                }
            }
            3 => {
                let n = rng.usize(1, 30);
                bytes.extend(rng.bytes(n))
            }
            4 => {
                let i = rng.usize(0, bytes.len() - 1);
                bytes[i] = rng.next_u64() as u8;
            }
            5 => {
                // splice: drop a chunk in the middle
                let a = rng.usize(0, bytes.len() - 1);
                let b = rng.usize(a, bytes.len());
                bytes.drain(a..b.min(a + 16));
            }
            6 => {
                let i = rng.usize(0, bytes.len());
                let n = rng.usize(1, 8);
                let ins = rng.bytes(n);
                for (k, x) in ins.into_iter().enumerate() {
                    bytes.insert(i + k, x);
                }
            }
            _ => {
                // grow towards 4096 with field-like material
                let target = rng.usize(bytes.len().min(4096), 4096);
                while bytes.len() < target {
                    let f = gen_field(rng, 4);
                    bytes.extend(f);
                }
                bytes.truncate(4096);
            }
        }
    }
}

fn draftver_op() -> String {
    format!("draftver {}", hex(v5::DRAFT_VERSION.as_bytes()))
}

fn gen_c23_case(rng: &mut Rng, idx: u64, heavy: bool) -> Vec<String> {
    if heavy && rng.chance(1, 400) {
        // another row of the authenticator-shape sweep with a different rotation (also lengths beyond 44)
        let flen = if rng.chance(1, 4) { rng.usize(45, 80) } else { rng.usize(4, 44) };
        let shift = rng.usize(0, 47);
        return auth_shape_row(flen, shift);
    }
    let mut ops = vec![draftver_op()];
    if heavy && rng.chance(1, 8) {
        // pure noise of every length class
        let n = match rng.below(6) {
            0 => rng.usize(0, 4),
            1 => rng.usize(44, 52),
            2 => rng.usize(52, 80),
            3 => rng.usize(0, 4096),
            4 => 4096,
            _ => rng.usize(48, 400),
        };
        let mut b = rng.bytes(n);
        if n > 0 && rng.chance(3, 4) {
            b[0] = (b[0] & 0xc7) | ((3 + rng.below(3) as u8) << 3);
        }
        ops.push(match idx % 3 {
            0 => "ctx none".to_string(),
            1 => format!("ctx key {}", hex(&rng.bytes(32))),
            _ => format!("ctx keyset off=1 keys={}", hex(&rng.bytes(64))),
        });
        ops.push(format!("parse {}", hex(&b)));
        return ops;
    }
    let mut built = build_packet(rng);
    ops.append(&mut built.setup);
    if !heavy {
        // the intact packet, then (sometimes) one light perturbation of it
        ops.push(format!("parse {}", hex(&built.bytes)));
        if rng.chance(1, 2) {
            let mut b = built.bytes.clone();
            damage(rng, &mut b, false);
            ops.push(format!("parse {}", hex(&b)));
        }
    } else {
        let k = rng.usize(1, 3);
        for _ in 0..k {
            let mut b = built.bytes.clone();
            damage(rng, &mut b, true);
            ops.push(format!("parse {}", hex(&b)));
        }
    }
    ops
}

/// the design-time / regression witnesses, always run first
fn corpus_c23() -> Vec<Vec<String>> {
    let mut v = vec![];
    let hdr4 = {
        let mut h = vec![0u8; 48];
        h[0] = 0x23;
        h
    };
    let hdr5 = {
        let mut h = vec![0u8; 48];
        h[0] = 0x2b;
        h
    };
    let draft = raw_field(T_DRAFT, 4 + v5::DRAFT_VERSION.len(), v5::DRAFT_VERSION.as_bytes(), true);
    let mut cases: Vec<Vec<u8>> = vec![vec![], vec![0x23], hdr4.clone(), hdr5.clone()];
    // F-C24 witness (parses; re-encoding used to panic)
    let mut w = hdr5.clone();
    w.extend(&draft);
    w.extend([0xF5, 0x03, 0x00, 0x0A, 1, 2, 3, 4, 5, 6, 0, 0]);
    cases.push(w);
    // F-C17 shape: short uid + 17 trailing bytes
    let mut w = hdr4.clone();
    w.extend([0x01, 0x04, 0x00, 0x08, 9, 9, 9, 9]);
    w.extend(vec![7u8; 17]);
    cases.push(w);
    // v5 field with a non-multiple-of-4 length at the very end (needs its padding present)
    let mut w = hdr5.clone();
    w.extend(&draft);
    w.extend([0x01, 0x04, 0x00, 0x05, 1]);
    cases.push(w.clone());
    w.extend([0, 0, 0]);
    cases.push(w);
    // encrypted field without key, nonce length 65535, ciphertext length lies
    for body in [
        vec![0xffu8, 0xff, 0, 0],
        vec![0, 16, 0xff, 0xff],
        vec![0, 0, 0, 0],
        vec![0, 1, 0, 1, 9, 0, 0, 0, 8, 0, 0, 0],
    ] {
        let mut w = hdr4.clone();
        w.extend(raw_field(T_ENC, 4 + body.len(), &body, true));
        w.extend(vec![0u8; 28]);
        cases.push(w);
    }
    // F-C23 witness: a correctly sealed v4 NTS packet whose nonce is 20 bytes long (RFC 8915 allows nonces
    // longer than 16 bytes; the SIV construction accepts any length)
    {
        use aes_siv::{siv::Aes128Siv, KeyInit};
        let key = [3u8; 32];
        let mut w = hdr4.clone();
        w.extend(raw_field(T_UID, 36, &[0x55u8; 32], true));
        let nonce = [0xA7u8; 20];
        let mut siv = Aes128Siv::new((&key).into());
        let ct = siv.encrypt([&w[..], &nonce[..]], &[]).expect("siv");
        let aad = w.clone();
        w.extend(enc_field(&nonce, &ct));
        v.push(vec![
            draftver_op(),
            oracle_line(&key, &nonce, &aad, &ct, &[]),
            format!("ctx key {}", hex(&key)),
            format!("parse {}", hex(&w)),
        ]);
    }
    // seeded-change witness shape: cookies that authenticate under the server key with a plaintext of the wrong
    // size (every class, both algorithms), followed by an authenticator sealed under the would-be c2s key
    {
        let mut rng = Rng::new(0xC00C1E);
        let skey = vec![0x5Au8; 64];
        for klen in [32usize, 64] {
            for class in 0..9u64 {
                let s2c = vec![0x21u8; klen];
                let c2s = vec![0x43u8; klen];
                let (cookie, line) = odd_cookie(&mut rng, &skey, 7, class, klen, &s2c, &c2s);
                let mut w = hdr4.clone();
                w.extend(raw_field(T_UID, 36, &[0x55u8; 32], true));
                let l = cookie.len();
                w.extend(raw_field(T_COOKIE, 4 + nm4(l), &cookie, true));
                let session = cipher_from_key(&c2s).unwrap();
                let (nonce, ct) = seal(session.as_ref(), &w, &[]);
                let auth_line = oracle_line(&c2s, &nonce, &w, &ct, &[]);
                w.extend(enc_field(&nonce, &ct));
                v.push(vec![
                    draftver_op(),
                    line,
                    auth_line,
                    format!("ctx keyset off=7 keys={}", hex(&skey)),
                    format!("parse {}", hex(&w)),
                ]);
            }
        }
    }
    for c in cases {
        for ctx in ["ctx none".to_string(), format!("ctx key {}", hex(&[3u8; 32])), format!("ctx keyset off=1 keys={}", hex(&[0u8; 64]))] {
            v.push(vec![draftver_op(), ctx, format!("parse {}", hex(&c))]);
        }
    }
    v
}

/// what a decode reports as authentic: (authenticated list, encrypted list, cookie)
type AuthView = (String, String, String);

fn auth_view(obs: &str) -> AuthView {
    let grab = |open: &str, close: &str| -> String {
        match obs.find(open) {
            Some(i) => {
                let rest = &obs[i + open.len()..];
                match rest.find(close) {
                    Some(j) => rest[..j].to_string(),
                    None => "-".to_string(),
                }
            }
            None => "-".to_string(),
        }
    };
    let a = grab(" a=[", "] e=[");
    let e = grab("] e=[", "] u=[");
    let c = match obs.find(" cookie=") {
        Some(i) => obs[i + 8..].to_string(),
        None => "none".to_string(),
    };
    (a, e, c)
}

/// C25 oracle, evaluated on the implementation's own output.  `o` = offset of the authenticator field in the
/// base packet, whose layout is type(2) len(2) nonce_len(2) ct_len(2) nonce(16) ct(ct_len) padding.
fn c25_oracle(run: &mut Run, ctx_kind: &str, o: usize, ct_len: usize, nl: usize, orig: &AuthView, pos: usize, obs: &str) {
    let got = auth_view(obs);
    let nothing = got.0 == "-" && got.1 == "-" && got.2 == "none";
    // field header 4, inner length words 4, nonce `nl` (the WHOLE nonce is authenticated), zero padding to a word
    // boundary (not authenticated), ciphertext
    let ct_start = o + 8 + nm4(nl);
    let protected = pos < o || (pos >= o + 8 && pos < o + 8 + nl) || (pos >= ct_start && pos < ct_start + ct_len);
    let region = if pos < 48 {
        "header"
    } else if pos < o {
        "before"
    } else if pos < o + 4 {
        "auth-type-len"
    } else if pos < o + 8 {
        "auth-inner-len"
    } else if pos < o + 8 + 16.min(nl) {
        "nonce"
    } else if pos < o + 8 + nl {
        "nonce-beyond-16"
    } else if pos < ct_start {
        "nonce-padding"
    } else if pos < ct_start + ct_len {
        "ciphertext"
    } else {
        "after"
    };
    if protected {
        run.hit(&format!("c25/{}/{}/{}", ctx_kind, region, if nothing { "nothing" } else { "ACCEPTED" }));
        if !nothing {
            run.oracle_fail(
                "tamper-accepted",
                &format!("ctx={} region={} pos={}", ctx_kind, region, pos),
                &format!("modified protected byte {} but decoder reports a=[{}] e=[{}] cookie={}", pos, got.0, got.1, got.2),
            );
        }
    } else {
        let same_lists = got.0 == orig.0 && got.1 == orig.1;
        let lists_empty = got.0 == "-" && got.1 == "-";
        let cookie_ok = got.2 == "none" || (got.2 == orig.2 && same_lists);
        let ok = (same_lists || lists_empty) && cookie_ok;
        run.hit(&format!("c25/{}/{}/{}", ctx_kind, region, if !ok { "DIFFERENT" } else if nothing { "nothing" } else { "same" }));
        if !ok {
            run.oracle_fail(
                "different-content",
                &format!("ctx={} region={} pos={}", ctx_kind, region, pos),
                &format!("modified unprotected byte {}: decoder reports a=[{}] e=[{}] cookie={} but the original was a=[{}] e=[{}] cookie={}", pos, got.0, got.1, got.2, orig.0, orig.1, orig.2),
            );
        }
    }
}

/// a valid NTS packet: (setup ops, bytes, authenticator offset, ciphertext length)
fn build_nts(rng: &mut Rng) -> (Vec<String>, Vec<u8>, usize, usize, &'static str) {
    let (a, b, c, d, e, _) = build_nts_nl(rng, false);
    (a, b, c, d, e)
}

/// as `build_nts`; with `long_nonces` the authenticator's nonce has 16, 17, 20, 24 or 32 octets (fixed shares).  A
/// nonce longer than 16 octets comes from a key holder that calls the AEAD itself, in one of two ways: with the full
/// wire nonce (honest long-nonce sender: the packet is authentic) or with the first 16 octets only (the wire nonce
/// is NOT what was sealed: an ideal AEAD, and the unmodified decoder, reject it).  Last component: nonce length.
fn build_nts_nl(rng: &mut Rng, long_nonces: bool) -> (Vec<String>, Vec<u8>, usize, usize, &'static str, usize) {
    let ver: u8 = if rng.chance(1, 2) { 4 } else { 5 };
    let klen = if rng.chance(1, 2) { 32 } else { 64 };
    let c2s = rand_key(rng, klen);
    let s2c = rand_key(rng, klen);
    let server_side = rng.chance(1, 2);
    let mut setup = vec![];
    let mut bytes = gen_header(rng, ver);
    if ver == 5 {
        bytes[0] = (bytes[0] & 0xf8) | if server_side { 3 } else { 4 };
        bytes[12] &= 3;
        bytes[14] = 0;
        bytes[15] &= 7;
    } else {
        bytes[0] = (bytes[0] & 0xf8) | if server_side { 3 } else { 4 };
    }
    let ctx_kind;
    bytes.extend(raw_field(T_UID, 36, &rng.bytes(32), true));
    if ver == 5 {
        bytes.extend(raw_field(T_DRAFT, 4 + v5::DRAFT_VERSION.len(), v5::DRAFT_VERSION.as_bytes(), true));
    }
    let n_extra = rng.usize(0, 8);
    if server_side {
        let nkeys = rng.usize(1, 3);
        let keys: Vec<Vec<u8>> = (0..nkeys).map(|_| rand_key(rng, 64)).collect();
        let off = if rng.chance(1, 2) { rng.next_u64() as u32 } else { u32::MAX };
        let primary = rng.below(nkeys as u64) as u32;
        let ks = keyset_from(&keys, off, primary);
        setup.push(format!("ctx keyset off={} keys={}", off, keys.iter().map(|k| hex(k)).collect::<Vec<_>>().join(",")));
        ctx_kind = "keyset";
        let alg = if klen == 32 { AeadAlgorithm::AeadAesSivCmac256 } else { AeadAlgorithm::AeadAesSivCmac512 };
        let dc = DecodedServerCookie { algorithm: alg, s2c: cipher_from_key(&s2c).unwrap(), c2s: cipher_from_key(&c2s).unwrap() };
        let cookie = ks.encode_cookie(&dc);
        let mut pt = u16::from(alg).to_be_bytes().to_vec();
        pt.extend_from_slice(&s2c);
        pt.extend_from_slice(&c2s);
        setup.push(oracle_line(&keys[primary as usize], &cookie[6..22], &[], &cookie[22..], &pt));
        let l = cookie.len();
        bytes.extend(raw_field(T_COOKIE, 4 + nm4(l), &cookie, true));
        // a request asks for more cookies with placeholders of the same size
        for _ in 0..n_extra {
            bytes.extend(raw_field(T_PH, 4 + nm4(l), &vec![0u8; nm4(l)], true));
        }
    } else {
        setup.push(format!("ctx key {}", hex(&c2s)));
        ctx_kind = "key";
    }
    // encrypted part: a response carries fresh cookies inside
    let mut pt = vec![];
    if !server_side {
        for _ in 0..n_extra {
            pt.extend(raw_field(T_COOKIE, 4 + 100, &rng.bytes(100), true));
        }
    }
    if rng.chance(1, 3) {
        pt.extend(raw_field(0x4321, 4 + 8, &rng.bytes(8), true));
    }
    let cipher = cipher_from_key(&c2s).unwrap();
    let nl = if long_nonces { *rng.pick(&[16usize, 16, 17, 17, 20, 24, 32, 32]) } else { 16 };
    let (nonce, ct) = if nl == 16 && rng.chance(1, 2) {
        let (nonce, ct) = seal(cipher.as_ref(), &bytes, &pt);
        setup.push(oracle_line(&c2s, &nonce, &bytes, &ct, &pt));
        (nonce, ct)
    } else {
        let nonce = rng.bytes(nl);
        let sealed_nonce_len = if nl > 16 && rng.chance(1, 2) { 16 } else { nl };
        let ct = seal_with_nonce(&c2s, &nonce[..sealed_nonce_len], &bytes, &pt);
        // the ideal AEAD knows the tuple that was really sealed; the decoder looks the WIRE nonce up
        setup.push(oracle_line(&c2s, &nonce[..sealed_nonce_len], &bytes, &ct, &pt));
        (nonce, ct)
    };
    let o = bytes.len();
    bytes.extend(enc_field(&nonce, &ct));
    // sometimes something unauthenticated follows
    match rng.below(4) {
        0 => bytes.extend(raw_field(0x5555, 4 + 28, &rng.bytes(28), true)),
        1 if ver == 4 => bytes.extend(rng.bytes(20)),
        _ => {}
    }
    (setup, bytes, o, ct.len(), ctx_kind, nonce.len())
}

/// C04 (implementation-only oracle, no model involved): what the leap vote sees of an NTPv5 packet.  With the
/// synchronized flag clear the parsed leap indicator is Unsynchronized; with the flag set and leap bits 3 it is
/// Unknown (such a source is ignored by the vote); otherwise it is the wire value.  `obs` = dump of the parsed packet
/// (`v5:l<index>,…`, index = NoWarning 0, Leap61 1, Leap59 2, Unknown 3, Unsynchronized 4).
fn c04_v5_leap_mapping(run: &mut Run, data: &[u8], obs: &str) {
    if data.len() < 48 || (data[0] >> 3) & 7 != 5 {
        return;
    }
    let Some(pos) = obs.find("v5:l") else { return };
    let got: String = obs[pos + 4..].chars().take_while(|c| c.is_ascii_digit()).collect();
    let bits = data[0] >> 6;
    let sync = data[15] & 1 == 1;
    let want = if !sync { 4 } else if bits == 3 { 3 } else { bits };
    run.hit(&format!("c04/v5leap/bits{}/sync{}/l{}", bits, sync as u8, got));
    run.nontrivial(&format!("c04|bits{}|sync{}|mode{}|{}", bits, sync as u8, data[0] & 7, (data.len() - 48) / 16));
    if got != want.to_string() {
        run.oracle_fail(
            "c04_v5_leap_mapping",
            &format!("bits={} sync={} got=l{} want=l{}", bits, sync as u8, got, want),
            &format!(
                "NTPv5 packet with leap bits {} and synchronized flag {} is parsed with leap indicator index {} (expected {}; 0 NoWarning, 1 Leap61, 2 Leap59, 3 Unknown, 4 Unsynchronized): the leap vote would count this source wrongly",
                bits, sync as u8, got, want
            ),
        );
    }
}

/// stream `c04_v5_leap`: key-less NTPv5 packets, all 4 leap-bit values x both values of the synchronized flag in
/// fixed shares (index mod 8), request and response, otherwise random valid headers, draft identification, sometimes
/// further plain fields
fn gen_c04_case(rng: &mut Rng, idx: u64) -> Vec<String> {
    let mut b = rng.bytes(48);
    let bits = (idx % 4) as u8;
    let sync = ((idx / 4) % 2) as u8;
    let mode = 3 + ((idx / 8) % 2) as u8;
    b[0] = (bits << 6) | (5 << 3) | mode;
    b[12] = rng.below(4) as u8;
    b[14] = 0;
    b[15] = (rng.below(4) as u8) << 1 | sync;
    b.extend(raw_field(T_DRAFT, 4 + v5::DRAFT_VERSION.len(), v5::DRAFT_VERSION.as_bytes(), true));
    if rng.chance(1, 3) {
        let l = rng.usize(0, 40);
        b.extend(raw_field(*rng.pick(&[T_UID, T_COOKIE, 0x1234u16, T_RRESP]), 4 + l, &rng.bytes(l), true));
    }
    vec![draftver_op(), "ctx none".to_string(), format!("parse {}", hex(&b))]
}

/// every single-bit flip and three byte replacements (0x00, 0xff, +1) at every position of one valid packet
fn gen_c25_case(rng: &mut Rng, _idx: u64) -> Vec<String> {
    let (mut ops, bytes, o, ct_len, _, nl) = build_nts_nl(rng, true);
    ops.insert(0, draftver_op());
    ops.push(format!("base {}", hex(&bytes)));
    ops.push(format!("c25 layout o={} ct={} nl={}", o, ct_len, nl));
    ops.push(format!("parse {}", hex(&bytes)));
    for i in 0..bytes.len() {
        for bit in 0..8 {
            ops.push(format!("flip {} {}", i, 1u32 << bit));
        }
        for v in [0u8, 0xff, bytes[i].wrapping_add(1)] {
            if v != bytes[i] {
                ops.push(format!("setb {} {}", i, v));
            }
        }
    }
    ops
}

/// One packet of the authenticator-shape sweep: an NTS authenticator field (type 0x0404) whose length word is
/// `flen`, whose inner nonce-length and ciphertext-length words are `nl` and `cl`, under v4 or v5 framing, with or
/// without a preceding cookie field.  `tail`: 0 = the packet ends after the field's padding, 1 = it ends right
/// after the `flen` bytes (no padding), 2 = a further field follows, 3 = 20 further raw bytes follow.
fn auth_shape_packet(ver: u8, flen: usize, nl: u16, cl: u16, tail: u8, with_cookie: bool) -> Vec<u8> {
    let mut w = vec![0u8; 48];
    w[0] = if ver == 5 { 0x2b } else { 0x23 };
    if ver == 5 {
        w.extend(raw_field(T_DRAFT, 4 + v5::DRAFT_VERSION.len(), v5::DRAFT_VERSION.as_bytes(), true));
    }
    w.extend(raw_field(T_UID, 36, &[0x55u8; 32], true));
    if with_cookie {
        let cookie: Vec<u8> = (0..104u32).map(|i| (i * 5 + 3) as u8).collect();
        w.extend(raw_field(T_COOKIE, 4 + cookie.len(), &cookie, true));
    }
    // the field: type, length word, then `flen - 4` body bytes starting with the two inner length words
    let mut body = vec![];
    body.extend_from_slice(&nl.to_be_bytes());
    body.extend_from_slice(&cl.to_be_bytes());
    let mut k = 0u8;
    while body.len() < flen.saturating_sub(4) {
        k = k.wrapping_add(1);
        body.push(0x80 | k);
    }
    body.truncate(flen.saturating_sub(4));
    w.extend(raw_field(T_ENC, flen, &body, tail != 1));
    match tail {
        2 => w.extend(raw_field(T_UID, 32, &[0x77u8; 28], true)),
        3 => w.extend([0x99u8; 20]),
        _ => {}
    }
    w
}

const SWEEP_KEY: [u8; 32] = [0x3c; 32];
const SWEEP_SKEY: [u8; 64] = [0x6d; 64];

fn sweep_ctx(i: usize) -> String {
    match i % 3 {
        0 => "ctx none".to_string(),
        1 => format!("ctx key {}", hex(&SWEEP_KEY)),
        _ => format!("ctx keyset off=1 keys={}", hex(&SWEEP_SKEY)),
    }
}

/// one row of the sweep: a fixed field length, every nonce-length word 0..=24 and every ciphertext-length word
/// 0..=40 and 0xffff; framing version, tail kind and cookie presence rotate through all 16 combinations along the
/// ciphertext-length axis (so every (length, nonce length) pair meets every combination), the key context along
/// the nonce-length axis (shifted by `shift`)
fn auth_shape_row(flen: usize, shift: usize) -> Vec<String> {
    let mut ops = vec![draftver_op()];
    for nl in 0..=24u16 {
        ops.push(sweep_ctx(nl as usize + flen + shift));
        for ci in 0..=41u16 {
            let cl = if ci == 41 { 0xffff } else { ci };
            let combo = (ci as usize + nl as usize + flen + shift) % 16;
            let ver = if combo & 1 == 0 { 5 } else { 4 };
            let tail = ((combo >> 1) & 3) as u8;
            let with_cookie = combo & 8 != 0;
            ops.push(format!("parse {}", hex(&auth_shape_packet(ver, flen, nl, cl, tail, with_cookie))));
        }
    }
    ops
}

/// the systematic part of `c23_malformed`: field lengths 4..=44, every value
fn corpus_auth_shapes() -> Vec<Vec<String>> {
    (4..=44usize).map(|flen| auth_shape_row(flen, 0)).collect()
}

fn exec_case(ops: &[String], run: &mut Run) {
    let mut ctx = Ctx::None;
    let mut ctx_kind = "none";
    let mut base: Vec<u8> = vec![];
    let mut base_auth: Option<(usize, usize, usize, AuthView)> = None;
    for op in ops {
        run.begin_op(op);
        let w: Vec<&str> = op.split_whitespace().collect();
        match w.as_slice() {
            ["draftver", h] => {
                let ok = unhex(h).map(|b| b == v5::DRAFT_VERSION.as_bytes()).unwrap_or(false);
                run.end_op(if ok { "ok" } else { "mismatch" });
            }
            ["oracle", ..] => run.end_op("ok"),
            ["ctx", kind, ..] => match ctx_from_op(&w) {
                Some(c) => {
                    ctx = c;
                    ctx_kind = match *kind {
                        "none" => "none",
                        "key" => "key",
                        _ => "keyset",
                    };
                    run.end_op("ok")
                }
                None => run.end_op("bad-op"),
            },
            ["parse", h] => {
                let data = unhex(h).expect("hex");
                let (obs, class) = parse_obs(&data, &ctx);
                run.hit(&format!("{}/{}", ctx_kind, if class == "err" { obs.as_str() } else { class }));
                if class == "panic" {
                    // C23 oracle: decoding never panics
                    run.oracle_fail("panic", &format!("ctx={} len={}", ctx_kind, data.len()), &format!("NtpPacket::deserialize panicked: {}", common::last_panic()));
                }
                if class == "ok" || class == "decrypterr" {
                    c04_v5_leap_mapping(run, &data, &obs);
                    // signature: context, outcome, and the shape of the dump (field kinds, no payloads)
                    let shape: String = obs
                        .split(|c| c == ' ' || c == ';' || c == '[')
                        .filter_map(|t| t.split(':').next())
                        .filter(|t| ["uid", "cookie", "ph", "inv", "draft", "rreq", "rresp", "unk", "v3", "v4", "v5", "a=", "e=", "u="].contains(t))
                        .collect::<Vec<_>>()
                        .join(",");
                    run.nontrivial(&format!("{}|{}|{}|{}", ctx_kind, class, shape, obs.contains("cookie=none")));
                    if obs.contains("e=[-]") == false {
                        run.hit(&format!("{}/decrypted", ctx_kind));
                    }
                }
                run.end_op(&obs);
            }
            ["base", h] => {
                base = unhex(h).expect("hex");
                base_auth = None;
                run.end_op("ok");
            }
            ["c25", "layout", rest @ ..] => {
                // harness-only annotation (the model driver answers `ok` to any `c25` line)
                let o: usize = common::kv(rest, "o").unwrap().parse().unwrap();
                let ct: usize = common::kv(rest, "ct").unwrap().parse().unwrap();
                let nl: usize = common::kv(rest, "nl").map(|v| v.parse().unwrap()).unwrap_or(16);
                let (obs, _) = parse_obs(&base, &ctx);
                base_auth = Some((o, ct, nl, auth_view(&obs)));
                run.end_op("ok");
            }
            ["flip", i, m] | ["setb", i, m] => {
                let i: usize = i.parse().unwrap();
                let m: u8 = m.parse().unwrap();
                let mut data = base.clone();
                if w[0] == "flip" {
                    data[i] ^= m;
                } else {
                    data[i] = m;
                }
                let (obs, class) = parse_obs(&data, &ctx);
                if class == "panic" {
                    run.oracle_fail("panic", &format!("ctx={} pos={}", ctx_kind, i), &format!("NtpPacket::deserialize panicked: {}", common::last_panic()));
                }
                let v = auth_view(&obs);
                if v.0 != "-" || v.1 != "-" {
                    run.nontrivial(&format!("{}|{}|{}|{}|{}|{}", ctx_kind, class, v.0.split(';').count(), v.1.split(';').count(), v.2 == "none", data.len() / 64));
                }
                if let Some((o, ct_len, nl, orig)) = &base_auth {
                    if data != base {
                        c25_oracle(run, ctx_kind, *o, *ct_len, *nl, orig, i, &obs);
                    }
                }
                run.end_op(&obs);
            }
            ["rt", h] => {
                let data = unhex(h).expect("hex");
                let obs = round_trip_obs(&data, run);
                run.end_op(&obs);
            }
            _ => run.end_op("bad-op"),
        }
    }
}

/// `NtpPacket::serialize` without keys into a buffer of `cap` bytes; `Err("panic")` / `Err("err:io")`
fn ser_plain(p: &NtpPacket, cap: usize) -> Result<Vec<u8>, &'static str> {
    let r = catch_unwind(AssertUnwindSafe(|| {
        let mut buf = vec![0u8; cap];
        let mut cur = std::io::Cursor::new(buf.as_mut_slice());
        match p.serialize(&mut cur, &NoCipher, None) {
            Ok(()) => {
                let n = cur.position() as usize;
                Ok(buf[..n].to_vec())
            }
            Err(_) => Err("err:io"),
        }
    }));
    match r {
        Ok(x) => x,
        Err(_) => Err("panic"),
    }
}

/// large enough for two maximal extension fields (the decoder accepts any byte string; no datagram limit here)
const RT_CAP: usize = 262144;

/// C24: `b -> p -> b1 -> q -> b2 -> q2`, all without keys.  The oracle states the property directly:
/// an accepted packet re-encodes, the re-encoding is accepted, and from there bytes and packet are stable.
fn round_trip_obs(data: &[u8], run: &mut Run) -> String {
    let r = catch_unwind(AssertUnwindSafe(|| {
        let p = match NtpPacket::deserialize(data, &NoCipher) {
            Ok((p, _)) => p,
            Err(ParsingError::DecryptError(p)) => return (format!("rejected decrypterr {}", packet_str(&p)), None),
            Err(e) => return (format!("rejected {}", perr_str(&e)), None),
        };
        let ver = match p.header {
            NtpHeader::V3(_) => "v3",
            NtpHeader::V4(_) => "v4",
            NtpHeader::V5(_) => "v5",
        };
        let b1 = match ser_plain(&p, RT_CAP) {
            Ok(b) => b,
            Err(e) => return (format!("accepted ser1={}", e), Some((ver, "ser1", e.to_string()))),
        };
        let q = match NtpPacket::deserialize(&b1, &NoCipher) {
            Ok((q, _)) => q,
            Err(ParsingError::DecryptError(q)) => {
                let t = format!("decrypterr {}", packet_str(&q));
                return (format!("accepted b1={} parse2={}", hex(&b1), t), Some((ver, "parse2", "decrypterr".to_string())));
            }
            Err(e) => {
                let t = perr_str(&e);
                return (format!("accepted b1={} parse2={}", hex(&b1), t), Some((ver, "parse2", t)));
            }
        };
        let b2 = match ser_plain(&q, RT_CAP) {
            Ok(b) => b,
            Err(e) => return (format!("accepted b1={} ser2={}", hex(&b1), e), Some((ver, "ser2", e.to_string()))),
        };
        let q2s = match NtpPacket::deserialize(&b2, &NoCipher) {
            Ok((q2, _)) => Ok(q2 == q),
            Err(ParsingError::DecryptError(q2)) => Err(format!("decrypterr {}", packet_str(&q2))),
            Err(e) => Err(perr_str(&e)),
        };
        match q2s {
            Err(t) => (format!("accepted b1={} parse3={}", hex(&b1), t), Some((ver, "parse3", t))),
            Ok(q2same) => {
                let b2same = b2 == b1;
                let fail = if !b2same {
                    Some((ver, "unstable-bytes", String::new()))
                } else if !q2same {
                    Some((ver, "unstable-packet", String::new()))
                } else {
                    None
                };
                let changed = if b1 == data { "same" } else if q == p { "bytes-normalised" } else { "packet-normalised" };
                (
                    format!("accepted b1={} q={} b2same={} q2same={}", hex(&b1), packet_str(&q), b2same as u8, q2same as u8),
                    fail.or(Some((ver, "stable", changed.to_string()))),
                )
            }
        }
    }));
    match r {
        Err(_) => {
            run.hit("rt/panic");
            run.oracle_fail("panic", "where=decode", &format!("decoding panicked: {}", common::last_panic()));
            "panic".to_string()
        }
        Ok((obs, None)) => {
            run.hit("rt/rejected");
            obs
        }
        Ok((obs, Some((ver, stage, detail)))) => {
            if stage == "stable" {
                run.hit(&format!("rt/{}/{}", ver, detail));
                // signature: version + kinds of the fields of q + mac presence + how the first round changed it
                let shape: String = obs
                    .split(|c| c == ' ' || c == ';' || c == '[')
                    .filter_map(|t| t.split(':').next())
                    .filter(|t| ["uid", "cookie", "ph", "draft", "pad", "rreq", "rresp", "unk", "mac=none"].contains(t))
                    .collect::<Vec<_>>()
                    .join(",");
                run.nontrivial(&format!("{}|{}|{}", ver, detail, shape));
            } else {
                run.hit(&format!("rt/{}/FAIL-{}", ver, stage));
                let last = if stage == "ser1" || stage == "ser2" { common::last_panic() } else { String::new() };
                run.oracle_fail(
                    stage,
                    &format!("ver={} detail={}", ver, detail.replace(' ', "_")),
                    &format!("accepted packet of {} bytes does not survive the round trip at stage {}: {} {}", data.len(), stage, detail, last),
                );
            }
            obs
        }
    }
}

/// a key-less packet that the decoder mostly accepts: header, plain fields, MAC tail
fn build_plain(rng: &mut Rng) -> Vec<u8> {
    let ver: u8 = match rng.below(20) {
        0 | 1 => 3,
        2..=10 => 4,
        _ => 5,
    };
    let mut b = gen_header(rng, ver);
    if ver == 3 {
        if rng.chance(1, 2) {
            let n = *rng.pick(&[4usize, 8, 20, 24, 28, 32, 1, 3, 40]);
            b.extend(rng.bytes(n));
        }
        return b;
    }
    let n = match rng.below(8) {
        0 => 0,
        1 | 2 => 1,
        3 | 4 => 2,
        5 => 3,
        _ => rng.usize(1, 6),
    };
    if ver == 5 {
        let draft = raw_field(T_DRAFT, 4 + v5::DRAFT_VERSION.len(), v5::DRAFT_VERSION.as_bytes(), true);
        let at = rng.usize(0, n);
        for i in 0..=n {
            if i == at && !rng.chance(1, 15) {
                b.extend(&draft);
            }
            if i < n {
                let f = gen_field(rng, 5);
                if b.len() + f.len() <= 4000 {
                    b.extend(f);
                }
            }
        }
        if rng.chance(1, 10) {
            let n = rng.usize(1, 8);
            b.extend(rng.bytes(n));
        }
    } else {
        for _ in 0..n {
            let f = gen_field(rng, 4);
            if b.len() + f.len() <= 4000 {
                b.extend(f);
            }
        }
        // v4: what follows the fields is the MAC (at most 28 bytes stop the streamer)
        match rng.below(6) {
            0 | 1 => {}
            2 => b.extend(rng.bytes(20)),
            3 => {
                let n = *rng.pick(&[4usize, 8, 12, 16, 24, 28]);
                b.extend(rng.bytes(n))
            }
            4 => {
                let n = rng.usize(1, 30);
                b.extend(rng.bytes(n))
            }
            _ => {
                // a last field that is exactly as long as the cut-off, or just above it
                let l = *rng.pick(&[24usize, 28, 32]);
                b.extend(raw_field(T_UID, l, &rng.bytes(l - 4), true));
            }
        }
    }
    b
}

fn gen_c24_case(rng: &mut Rng, _idx: u64) -> Vec<String> {
    let mut b = if rng.chance(1, 12) { build_packet(rng).bytes } else { build_plain(rng) };
    if rng.chance(1, 6) {
        damage(rng, &mut b, false);
    }
    vec![draftver_op(), format!("rt {}", hex(&b))]
}

fn corpus_c24() -> Vec<Vec<String>> {
    let hdr = |b0: u8| {
        let mut h = vec![0u8; 48];
        h[0] = b0;
        h
    };
    let draft = raw_field(T_DRAFT, 4 + v5::DRAFT_VERSION.len(), v5::DRAFT_VERSION.as_bytes(), true);
    let mut cases: Vec<Vec<u8>> = vec![];
    // F-C24 witnesses: reference-id request with payload length 6, 2 and 3 (parse; re-encoding panicked)
    for (flen, body) in [(10usize, vec![1u8, 2, 3, 4, 5, 6]), (6, vec![0, 9]), (7, vec![0, 9, 7]), (8, vec![0, 0, 1, 1]), (12, vec![0, 4, 1, 2, 3, 4, 5, 6])] {
        let mut w = hdr(0x2b);
        w.extend(&draft);
        w.extend(raw_field(T_RREQ, flen, &body, true));
        cases.push(w);
    }
    // bare headers, v3 with MAC
    cases.push(hdr(0x1b));
    cases.push(hdr(0x23));
    let mut w = hdr(0x2b);
    w.extend(&draft);
    cases.push(w);
    let mut w = hdr(0xdc);
    w.extend(vec![7u8; 20]);
    cases.push(w);
    // v5 header with the synchronised flag clear and leap bits set (leap is rewritten)
    let mut w = hdr(0x6b);
    w.extend(&draft);
    cases.push(w);
    // v4: short field that the encoder pads to 16 / 28, followed by a MAC
    let mut w = hdr(0x23);
    w.extend([0x01, 0x04, 0x00, 0x08, 9, 9, 9, 9]);
    w.extend([0x02, 0x04, 0x00, 0x08, 8, 8, 8, 8]);
    w.extend(vec![7u8; 20]);
    cases.push(w);
    // v4 cut-off corners (Mac::MAXIMUM_SIZE = 24): a last field of exactly 28 bytes is read as a field (28 > 24);
    // 24 trailing bytes are a MAC to the decoder even when they are framed like a field, alone or after a field
    let mut w = hdr(0x23);
    w.extend(raw_field(T_UID, 28, &[5u8; 24], true));
    cases.push(w);
    let mut w = hdr(0x23);
    w.extend(raw_field(T_UID, 24, &[5u8; 20], true));
    cases.push(w);
    let mut w = hdr(0x23);
    w.extend(raw_field(T_UID, 16, &[6u8; 12], true));
    w.extend(raw_field(T_COOKIE, 24, &[5u8; 20], true));
    cases.push(w);
    let mut w = hdr(0x23);
    w.extend(raw_field(T_UID, 28, &[5u8; 24], true));
    w.extend(vec![7u8; 24]);
    cases.push(w);
    let mut w = hdr(0x23);
    w.extend(raw_field(T_UID, 32, &[5u8; 28], true));
    cases.push(w);
    // v5 field with an odd length, padding field, placeholder, unknown type
    let mut w = hdr(0x2c);
    w.extend(&draft);
    w.extend(raw_field(T_UID, 9, &[1, 2, 3, 4, 5], true));
    w.extend(raw_field(T_PAD, 8, &[0; 4], true));
    w.extend(raw_field(T_PH, 12, &[0; 8], true));
    w.extend(raw_field(0x1234, 5, &[1], true));
    w.extend(raw_field(T_RRESP, 7, &[1, 2, 3], true));
    cases.push(w);
    // large bodies for every field kind (sizes around the 512-byte Bloom filter, 1000, 2000), v5 and v4
    for &l in &[509usize, 512, 513, 516, 1000, 2000] {
        for &ty in &[T_RRESP, T_RREQ, T_PAD, 0x1234u16, T_UID, T_COOKIE, T_PH] {
            let body = if ty == T_PH { vec![0u8; l] } else { (0..l).map(|i| (i * 7 + 1) as u8).collect::<Vec<u8>>() };
            let mut w = hdr(0x2b);
            w.extend(&draft);
            w.extend(raw_field(ty, 4 + l, &body, true));
            cases.push(w);
            if l % 4 == 0 {
                let mut w = hdr(0x23);
                w.extend(raw_field(ty, 4 + l, &body, true));
                cases.push(w);
            }
        }
    }
    // HUGE fields: the decoder accepts 16-bit field lengths up to 65535 (v5: any value; v4: multiples of 4), the
    // property is quantified over every accepted byte string, so the encoder limits must agree at the top end
    let big_body = |ty: u16, l: usize| -> Vec<u8> {
        if ty == T_PH {
            vec![0u8; l]
        } else {
            // ASCII only (a draft identification must be), first two bytes = a reference-id offset
            (0..l).map(|i| ((i * 7 + 1) % 127) as u8).collect::<Vec<u8>>()
        }
    };
    for flen in 65528usize..=65535 {
        for &ty in &[0x1234u16, T_UID, T_COOKIE, T_PH, T_DRAFT, T_PAD, T_RREQ, T_RRESP] {
            // every length for the generic encoder (unknown, unique id); the other kinds at the corners
            if !(ty == 0x1234 || ty == T_UID || [65528, 65532, 65533, 65535].contains(&flen)) {
                continue;
            }
            let mut w = hdr(0x2b);
            w.extend(&draft);
            w.extend(raw_field(ty, flen, &big_body(ty, flen - 4), true));
            cases.push(w);
        }
    }
    for &flen in &[65528usize, 65532] {
        for &ty in &[0x1234u16, T_UID, T_COOKIE, T_PH, T_DRAFT] {
            let mut w = hdr(0x23);
            w.extend(raw_field(ty, flen, &big_body(ty, flen - 4), true));
            if ty == T_COOKIE {
                w.extend(vec![7u8; 20]);
            }
            cases.push(w);
        }
    }
    // two fields straddling the 16-bit range
    let mut w = hdr(0x2b);
    w.extend(&draft);
    w.extend(raw_field(T_UID, 65533, &big_body(T_UID, 65529), true));
    w.extend(raw_field(0x1234, 65535, &big_body(0x1234, 65531), true));
    cases.push(w);
    let mut w = hdr(0x2b);
    w.extend(raw_field(T_COOKIE, 65535, &big_body(T_COOKIE, 65531), true));
    w.extend(&draft);
    w.extend(raw_field(T_RRESP, 5, &[1], true));
    cases.push(w);
    let mut w = hdr(0x2b);
    w.extend(&draft);
    w.extend(raw_field(T_UID, 32768, &big_body(T_UID, 32764), true));
    w.extend(raw_field(T_PH, 32771, &big_body(T_PH, 32767), true));
    cases.push(w);
    let mut w = hdr(0x23);
    w.extend(raw_field(T_UID, 65532, &big_body(T_UID, 65528), true));
    w.extend(raw_field(0x1234, 65532, &big_body(0x1234, 65528), true));
    w.extend(vec![7u8; 24]);
    cases.push(w);
    cases.into_iter().map(|c| vec![draftver_op(), format!("rt {}", hex(&c))]).collect()
}

fn drive_with_corpus<G>(stream: &str, rule: &str, corpus: Vec<Vec<String>>, mut gen_case: G)
where
    G: FnMut(&mut Rng, u64) -> Vec<String>,
{
    let ncorpus = corpus.len() as u64;
    common::drive(
        stream,
        rule,
        |rng, idx, _run| {
            if idx < ncorpus {
                corpus[idx as usize].clone()
            } else {
                gen_case(rng, idx)
            }
        },
        exec_case,
    );
}

#[test]
fn entry() {
    let stream = std::env::var("VERIF_STREAM").unwrap_or_default();
    match stream.as_str() {
        "c23_structured" => drive_with_corpus(
            "c23_structured",
            "corpus first; then v3/v4/v5 packets built field by field (9 field kinds, boundary lengths, real AES-SIV-256/512 encrypted fields over generated plaintext, real cookies under 1-4 key key sets with wrapping id offsets, MAC tails), intact and once lightly perturbed, decoded under none/key/keyset; non-trivial = decoder returned a packet (Ok or DecryptError); distinct by context+outcome+field-kind shape",
            corpus_c23(),
            |rng, idx| gen_c23_case(rng, idx, false),
        ),
        "c23_malformed" => drive_with_corpus(
            "c23_malformed",
            "corpus + systematic sweep of NTS authenticator field shapes (field length 4..44 x nonce-length word 0..24 x ciphertext-length word 0..40 and 0xffff; v4/v5 framing, end of packet with/without padding, followed by a field or raw bytes, with/without cookie, rotating through none/key/keyset) first; random sweep rows later; then the same packets after 1-4 rounds of damage (bit flips, truncation, length-word lies incl. 0/0xffff, splices, insertions, growth to 4096 bytes) and pure noise of lengths 0..4096; all three contexts",
            {
                let mut c = corpus_c23();
                c.extend(corpus_auth_shapes());
                c
            },
            |rng, idx| gen_c23_case(rng, idx, true),
        ),
        "c24_roundtrip" => drive_with_corpus(
            "c24_roundtrip",
            "corpus first (F-C24 witnesses, header-only packets, cut-off and padding corners, HUGE fields: one field of total length 65528..65535 for every kind under v5 and 65528/65532 under v4, two-field packets straddling 65535, buffer 262144); then key-less v3/v4/v5 packets: random header, 0-6 plain fields of all nine kinds with boundary lengths, draft id for v5, MAC tails of 0-30 bytes, sometimes lightly damaged; each is taken through b -> p -> b1 -> q -> b2 -> q2; non-trivial = accepted and stable; distinct by version + normalisation kind + field-kind shape",
            corpus_c24(),
            gen_c24_case,
        ),
        "c04_v5_leap" => drive_with_corpus(
            "c04_v5_leap",
            "key-less NTPv5 packets with all 4 leap-bit values x both values of the synchronized flag x request/response in fixed shares (index mod 16), random valid remaining header, draft identification, sometimes one more plain field; decoded by the real decoder and the model; implementation-only oracle c04_v5_leap_mapping: synchronized flag clear => Unsynchronized, flag set and leap bits 3 => Unknown (ignored by the leap vote), otherwise the wire value; non-trivial = accepted; distinct by leap bits + flag + mode + field shape",
            vec![],
            gen_c04_case,
        ),
        "c25_tamper" => drive_with_corpus(
            "c25_tamper",
            "valid NTS packets (v4/v5, AES-SIV-CMAC-256/512, authenticator nonces of 16, 17, 20, 24 and 32 octets - the longer ones sealed by a key holder calling AES-SIV directly, half of them with the full wire nonce (authentic) and half with its first 16 octets only (not authentic: the wire nonce was not sealed) -, client side under the session key and server side under a 1-3 key key set with a real cookie, 0-8 placeholders or 0-8 fresh cookies inside the ciphertext, sometimes an unauthenticated field or MAC after the authenticator); for each, the intact packet and EVERY single-bit flip plus three byte replacements at EVERY position are decoded; one case = one packet with all its modifications; non-trivial = a decode that still reports authenticated content; distinct by context+outcome+shape",
            vec![],
            gen_c25_case,
        ),
        other => panic!("unknown VERIF_STREAM {:?}", other),
    }
}
