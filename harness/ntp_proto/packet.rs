//! verification harness module included into `ntp-proto/src/packet/mod.rs` (guarded hook).
