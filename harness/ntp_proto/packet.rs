//! verification harness dispatcher for hook `verif_packet` of crate `ntp_proto` (guarded hook).
//! Add one line per property cluster:   #[path = "packet_<cluster>.rs"] mod <cluster>;
//! Each sub-module has its own `#[test] fn entry()` selected by VERIF_STREAM and reaches the private
//! items of the module the hook sits in through `super::super::*`.

#[path = "packet_wire.rs"]
mod wire;

#[path = "packet_srvdump.rs"]
mod srvdump;

#[path = "packet_dump.rs"]
mod dump;
