//! verification harness dispatcher included into `ntp-proto/src/source.rs` (guarded hook).
//! Each sub-module is a child of `crate::source::verif_source` and therefore sees the private items of
//! `crate::source` (use `super::super::*`).  One sub-module per property cluster, each with its own
//! `#[test] fn entry()` selected by VERIF_STREAM.

#[path = "source_c13.rs"]
mod c13;

#[path = "source_c05.rs"]
mod c05;

#[path = "source_sm.rs"]
mod sm;
