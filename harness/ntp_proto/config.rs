//! verification harness module included into `ntp-proto/src/config.rs` (guarded hook).
