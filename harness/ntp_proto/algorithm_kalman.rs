//! verification harness dispatcher for hook `verif_algorithm_kalman` of crate `ntp_proto` (guarded hook).
//! Add one line per property cluster:   #[path = "algorithm_kalman_<cluster>.rs"] mod <cluster>;
//! Each sub-module has its own `#[test] fn entry()` selected by VERIF_STREAM and reaches the private
//! items of the module the hook sits in through `super::super::*`.

#[path = "algorithm_kalman_steer.rs"]
mod steer;

#[path = "algorithm_kalman_ctrl.rs"]
mod ctrl;

#[path = "algorithm_kalman_whole.rs"]
mod whole;
