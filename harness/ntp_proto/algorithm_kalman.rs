//! verification harness module included into `ntp-proto/src/algorithm/kalman/mod.rs` (guarded hook).
