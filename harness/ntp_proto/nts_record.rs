//! verification harness module included into `ntp-proto/src/nts/record.rs` (guarded hook).
