//! verification harness dispatcher for hook `verif_system` of crate `ntp_proto` (guarded hook).
//! Add one line per property cluster:   #[path = "system_<cluster>.rs"] mod <cluster>;
//! Each sub-module has its own `#[test] fn entry()` selected by VERIF_STREAM and reaches the private
//! items of the module the hook sits in through `super::super::*`.

#[path = "system_c33.rs"]
mod c33;
