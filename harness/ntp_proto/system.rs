//! verification harness module included into `ntp-proto/src/system.rs` (guarded hook).
