//! verification harness module included into `ntp-proto/src/packet/v5/mod.rs` (guarded hook).
