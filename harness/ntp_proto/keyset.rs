//! verification harness module included into `ntp-proto/src/keyset.rs` (guarded hook).
