//! verification harness module included into `ntp-proto/src/packet/mod.rs` (guarded hook), cluster `server`
//! (properties C15, C16, C17, C18, C19, C21, C22).
//!
//! It lives in the packet hook (not the server hook) because the abstract request/response records need the
//! private fields of `NtpPacket` / `ExtensionFieldData`; of `server.rs` only the public API is used
//! (`Server::new_internal`, `Server::handle`, `ServerConfig`).
//!
//! Streams (VERIF_STREAM):
//!   srv_main      — structured requests (plain v3/v4/v5, NTS v4/v5, perturbed at the decision boundaries)
//!   srv_malformed — byte-level mutations / truncations / random bytes
//!
//! One case = `cfg` line (policy + key set), `cfgsrv` line (synchronisation state), then `req` lines.  A
//! `req` line as generated carries only raw data (address, datagram, buffer size, times, the client's
//! session keys); the executor parses the datagram with the REAL parser and appends the abstract request
//! record (what the Lean model reads).  The raw keys stay in the line so every emitted line is replayable.
#![allow(clippy::all, clippy::pedantic)]

#[path = "../common/mod.rs"]
mod common;

use super::super::*;
use crate::ipfilter::IpFilter;
use crate::nts::AeadAlgorithm;
use crate::packet::v5::server_reference_id::{BloomFilter, ServerId};
use crate::server::{
    FilterAction, FilterList, IpSubnet, Server, ServerAction, ServerConfig, ServerReason, ServerResponse,
    ServerStatHandler,
};
use crate::system::{NtpServerInfo, NtpSnapshot, TimeSnapshot};
use crate::{KeySet, KeySetProvider};
use aes_siv::{siv::Aes128Siv, siv::Aes256Siv, KeyInit};
use common::{f64hex, f64unhex, hex, kv, unhex, Rng, Run};
use rand::SeedableRng;
use std::net::IpAddr;
use std::sync::{Arc, RwLock};

// ------------------------------------------------------------------------------------------------ helpers

#[derive(Debug, Clone, Default)]
struct FixedClock {
    now: Arc<std::sync::atomic::AtomicU64>,
}

impl NtpClock for FixedClock {
    type Error = std::io::Error;
    fn now(&self) -> Result<NtpTimestamp, Self::Error> {
        Ok(NtpTimestamp::from_fixed_int(self.now.load(std::sync::atomic::Ordering::Relaxed)))
    }
    fn set_frequency(&self, _freq: f64) -> Result<NtpTimestamp, Self::Error> {
        panic!("not used by the server")
    }
    fn get_frequency(&self) -> Result<f64, Self::Error> {
        Ok(0.0)
    }
    fn step_clock(&self, _offset: NtpDuration) -> Result<NtpTimestamp, Self::Error> {
        panic!("not used by the server")
    }
    fn disable_ntp_algorithm(&self) -> Result<(), Self::Error> {
        panic!("not used by the server")
    }
    fn error_estimate_update(&self, _e: NtpDuration, _m: NtpDuration) -> Result<(), Self::Error> {
        panic!("not used by the server")
    }
    fn status_update(&self, _l: NtpLeapIndicator) -> Result<(), Self::Error> {
        panic!("not used by the server")
    }
}

#[derive(Default)]
struct RecStats {
    entries: Vec<(u8, bool, ServerReason, ServerResponse)>,
}

impl ServerStatHandler for RecStats {
    fn register(&mut self, version: u8, nts: bool, reason: ServerReason, response: ServerResponse) {
        self.entries.push((version, nts, reason, response));
    }
}

fn reason_str(r: ServerReason) -> &'static str {
    match r {
        ServerReason::RateLimit => "rate",
        ServerReason::ParseError => "parse",
        ServerReason::InvalidCrypto => "crypto",
        ServerReason::InternalError => "internal",
        ServerReason::Policy => "policy",
    }
}

fn response_str(r: ServerResponse) -> &'static str {
    match r {
        ServerResponse::NTSNak => "nak",
        ServerResponse::Deny => "deny",
        ServerResponse::Ignore => "ignore",
        ServerResponse::ProvideTime => "time",
    }
}

fn stats_str(s: &RecStats) -> String {
    if s.entries.is_empty() {
        return "-".to_string();
    }
    s.entries
        .iter()
        .map(|(v, n, r, a)| format!("{}/{}/{}/{}", v, *n as u8, reason_str(*r), response_str(*a)))
        .collect::<Vec<_>>()
        .join(";")
}

fn next4(n: usize) -> usize {
    (n + 3) & !3
}

/// abstract form of one extension field of a REQUEST
fn req_field(f: &ExtensionField<'_>, v5: bool) -> String {
    match f {
        ExtensionField::UniqueIdentifier(b) => format!("u:{}", hex(b)),
        ExtensionField::NtsCookie(b) => format!("c:{}", b.len()),
        ExtensionField::NtsCookiePlaceholder { cookie_length } => format!("p:{}", cookie_length),
        ExtensionField::InvalidNtsEncryptedField => "x".to_string(),
        ExtensionField::DraftIdentification(s) => format!("d:{}", s.len()),
        ExtensionField::Padding(n) => format!("g:{}", n),
        ExtensionField::ReferenceIdRequest(r) => format!("q:{}:{}", r.offset(), r.payload_len()),
        ExtensionField::ReferenceIdResponse(r) => format!("r:{}", r.bytes().len()),
        ExtensionField::Unknown { type_id, data } => {
            let _ = v5;
            format!("k:{:04x}:{}", type_id, data.len())
        }
    }
}

fn field_list<F: Fn(&ExtensionField<'_>) -> String>(fs: &[ExtensionField<'_>], f: F) -> String {
    if fs.is_empty() {
        "-".to_string()
    } else {
        fs.iter().map(|x| f(x)).collect::<Vec<_>>().join(",")
    }
}

/// raw walk over the extension-field area exactly as the streamer does it: (sum of the wire lengths of the
/// NtsEncryptedField (0x0404) fields, end offset of the field area, smallest nonce length of such a field)
fn raw_walk(msg: &[u8], v5: bool) -> (usize, usize, usize) {
    let cutoff = if v5 { 0 } else { 24 };
    let mut off = 48;
    let mut enc = 0;
    let mut min_nonce = usize::MAX;
    while off <= msg.len() && msg.len() - off > cutoff {
        if msg.len() - off < 4 {
            break;
        }
        let ty = u16::from_be_bytes([msg[off], msg[off + 1]]);
        let len = u16::from_be_bytes([msg[off + 2], msg[off + 3]]) as usize;
        let wire = next4(len);
        if len < 4 || off + wire > msg.len() {
            break;
        }
        if ty == 0x0404 {
            enc += wire;
            if len >= 8 {
                min_nonce = min_nonce.min(u16::from_be_bytes([msg[off + 4], msg[off + 5]]) as usize);
            }
        }
        off += wire;
    }
    (enc, off, min_nonce)
}

/// independent check of a request's NTS authenticator: walk the raw datagram to its first NtsEncryptedField and
/// ask the cipher itself (not the parser's `RawEncryptedField::decrypt`) whether (nonce, ciphertext, prefix)
/// authenticates under `key`.  `None`: no such field.
fn independent_auth(msg: &[u8], v5: bool, key: &[u8]) -> Option<bool> {
    let cutoff = if v5 { 0 } else { 24 };
    let mut off = 48;
    while off <= msg.len() && msg.len() - off > cutoff {
        if msg.len() - off < 4 {
            break;
        }
        let ty = u16::from_be_bytes([msg[off], msg[off + 1]]);
        let len = u16::from_be_bytes([msg[off + 2], msg[off + 3]]) as usize;
        let wire = next4(len);
        if len < 4 || off + wire > msg.len() {
            break;
        }
        if ty == 0x0404 {
            if len < 8 {
                return Some(false);
            }
            let nl = u16::from_be_bytes([msg[off + 4], msg[off + 5]]) as usize;
            let cl = u16::from_be_bytes([msg[off + 6], msg[off + 7]]) as usize;
            let ns = off + 8;
            let cs = ns + next4(nl);
            if ns + nl > off + len || cs + cl > off + len {
                return Some(false);
            }
            let cipher = make_cipher(key)?;
            return Some(cipher.decrypt(&msg[ns..ns + nl], &msg[cs..cs + cl], &msg[..off]).is_ok());
        }
        off += wire;
    }
    None
}

fn mac_len(p: &NtpPacket<'_>) -> usize {
    match &p.mac {
        None => 0,
        Some(m) => {
            let mut v: Vec<u8> = vec![];
            m.serialize(&mut v).expect("mac");
            v.len()
        }
    }
}

struct Session {
    alg: u16,
    s2c: Vec<u8>,
    c2s: Vec<u8>,
}

fn make_cipher(key: &[u8]) -> Option<Box<dyn Cipher>> {
    match key.len() {
        32 => Some(Box::new(AesSivCmac256::new(key.iter().copied().collect()))),
        64 => Some(Box::new(AesSivCmac512::new(key.iter().copied().collect()))),
        _ => None,
    }
}

fn siv_encrypt(key: &[u8], aad: &[u8], nonce: &[u8], pt: &[u8]) -> Vec<u8> {
    match key.len() {
        32 => Aes128Siv::new_from_slice(key).expect("key").encrypt([aad, nonce], pt).expect("siv"),
        _ => Aes256Siv::new_from_slice(key).expect("key").encrypt([aad, nonce], pt).expect("siv"),
    }
}

/// the harness's own cookie codec (independent of `KeySet::{encode,decode}_cookie`): key `idx` of the key file,
/// id = idx + id_offset (wrapping), `id(4) len(2) nonce(16) ciphertext`, plaintext `alg(2) s2c c2s`
fn own_cookie(rng: &mut Rng, file: &[u8], idx: usize, sess: &Session) -> Vec<u8> {
    let id_offset = u32::from_be_bytes(file[8..12].try_into().unwrap());
    let key = &file[20 + 64 * idx..20 + 64 * (idx + 1)];
    let mut pt = sess.alg.to_be_bytes().to_vec();
    pt.extend_from_slice(&sess.s2c);
    pt.extend_from_slice(&sess.c2s);
    let nonce = rng.bytes(16);
    let ct = siv_encrypt(key, &[], &nonce, &pt);
    let mut c = (idx as u32).wrapping_add(id_offset).to_be_bytes().to_vec();
    c.extend_from_slice(&(ct.len() as u16).to_be_bytes());
    c.extend_from_slice(&nonce);
    c.extend_from_slice(&ct);
    c
}

fn own_decode_cookie(file: &[u8], cookie: &[u8]) -> Option<(u16, Vec<u8>, Vec<u8>)> {
    if file.len() < 20 || cookie.len() < 22 {
        return None;
    }
    let id_offset = u32::from_be_bytes(file[8..12].try_into().unwrap());
    let nkeys = u32::from_be_bytes(file[16..20].try_into().unwrap()) as usize;
    let idx = u32::from_be_bytes(cookie[0..4].try_into().unwrap()).wrapping_sub(id_offset) as usize;
    if idx >= nkeys || file.len() < 20 + 64 * (idx + 1) {
        return None;
    }
    let key = &file[20 + 64 * idx..20 + 64 * (idx + 1)];
    let cl = u16::from_be_bytes([cookie[4], cookie[5]]) as usize;
    let ct = cookie[22..].get(..cl)?;
    let pt = Aes256Siv::new_from_slice(key).ok()?.decrypt([&[] as &[u8], &cookie[6..22]], ct).ok()?;
    if pt.len() < 2 {
        return None;
    }
    let alg = u16::from_be_bytes([pt[0], pt[1]]);
    let kb = &pt[2..];
    match (alg, kb.len()) {
        (15, 64) => Some((15, kb[..32].to_vec(), kb[32..].to_vec())),
        (17, 128) => Some((17, kb[..64].to_vec(), kb[64..].to_vec())),
        _ => None,
    }
}

/// (type, body offset, body length) of the extension fields the parser would frame
fn raw_fields(msg: &[u8], v5: bool) -> Vec<(u16, usize, usize)> {
    let cutoff = if v5 { 0 } else { 24 };
    let mut off = 48;
    let mut out = vec![];
    while off <= msg.len() && msg.len() - off > cutoff {
        if msg.len() - off < 4 {
            break;
        }
        let ty = u16::from_be_bytes([msg[off], msg[off + 1]]);
        let len = u16::from_be_bytes([msg[off + 2], msg[off + 3]]) as usize;
        if len < 4 || off + next4(len) > msg.len() {
            break;
        }
        out.push((ty, off + 4, len - 4));
        off += next4(len);
    }
    out
}

/// the server's key set as the daemon obtains it across a restart: the key file is loaded, STORED again with the
/// real `KeySetProvider::store`, and loaded with the configured `history` — which may be smaller than, equal to
/// or larger than the number of stored keys (history lowered / raised across the restart), including 0
fn load_keyset_hist(file: &[u8], history: usize) -> Arc<KeySet> {
    let mut rd = std::io::Cursor::new(file.to_vec());
    let (p0, _) = KeySetProvider::load(&mut rd, 8).expect("keyset file");
    let mut stored: Vec<u8> = vec![];
    p0.store(&mut stored).expect("store");
    let mut rd = std::io::Cursor::new(stored);
    let (p, _) = KeySetProvider::load(&mut rd, history).expect("stored keyset file");
    p.get()
}

fn load_keyset(file: &[u8]) -> Arc<KeySet> {
    load_keyset_hist(file, 8)
}

fn bloom_from_seed(seed: u64, n: u64) -> BloomFilter {
    let mut r = rand::rngs::StdRng::seed_from_u64(seed);
    let mut b = BloomFilter::new();
    for _ in 0..n {
        b.add_id(&ServerId::new(&mut r));
    }
    b
}

fn leap_from_idx(i: u64) -> NtpLeapIndicator {
    match i {
        0 => NtpLeapIndicator::NoWarning,
        1 => NtpLeapIndicator::Leap61,
        2 => NtpLeapIndicator::Leap59,
        3 => NtpLeapIndicator::Unknown,
        _ => NtpLeapIndicator::Unsynchronized,
    }
}

fn parse_action(s: &str) -> FilterAction {
    if s == "deny" {
        FilterAction::Deny
    } else {
        FilterAction::Ignore
    }
}

fn parse_subnets(s: &str) -> Vec<IpSubnet> {
    if s == "-" {
        return vec![];
    }
    s.split(';').map(|x| x.parse::<IpSubnet>().expect("subnet")).collect()
}

fn u64hex(s: &str) -> u64 {
    u64::from_str_radix(s, 16).expect("hex64")
}

// ------------------------------------------------------------------------------------------------ executor

struct World {
    cfg: ServerConfig,
    denyf: IpFilter,
    allowf: IpFilter,
    keyset: Arc<KeySet>,
    keyfile: Vec<u8>,
    /// the configured deny / allow lists as text (for the harness's own membership test)
    dlist_s: Vec<String>,
    alist_s: Vec<String>,
    info: NtpServerInfo,
    /// the `Arc<RwLock<NtpServerInfo>>` both servers were built with (the daemon's system task writes to it)
    shared: Arc<RwLock<NtpServerInfo>>,
    server: Option<Server<FixedClock>>,
    shadow: Option<Server<FixedClock>>,
    last_ip: Option<IpAddr>,
    clock: FixedClock,
}

impl World {
    fn new() -> World {
        let cfg = ServerConfig {
            denylist: FilterList { filter: vec![], action: FilterAction::Ignore },
            allowlist: FilterList { filter: vec!["0.0.0.0/0".parse().unwrap(), "::/0".parse().unwrap()], action: FilterAction::Ignore },
            rate_limiting_cache_size: 0,
            rate_limiting_cutoff: std::time::Duration::from_secs(0),
            require_nts: None,
            accepted_versions: vec![NtpVersion::V3, NtpVersion::V4, NtpVersion::V5],
        };
        World {
            denyf: IpFilter::new(&cfg.denylist.filter),
            allowf: IpFilter::new(&cfg.allowlist.filter),
            cfg,
            keyset: Arc::new(KeySet::new()),
            keyfile: vec![],
            dlist_s: vec![],
            alist_s: vec!["0.0.0.0/0".to_string(), "::/0".to_string()],
            shared: Arc::new(RwLock::new(NtpServerInfo::default())),
            info: NtpServerInfo::default(),
            server: None,
            shadow: None,
            last_ip: None,
            clock: FixedClock::default(),
        }
    }

    fn build(&mut self) {
        self.shared = Arc::new(RwLock::new(self.info));
        let mk = |w: &World| Server::new_internal(w.cfg.clone(), w.clock.clone(), w.shared.clone(), w.keyset.clone());
        self.server = Some(mk(self));
        self.shadow = Some(mk(self));
        self.last_ip = None;
    }
}

/// what one `handle` call did, in canonical text (also used by the oracle)
struct Outcome {
    text: String,
    responded: bool,
    resp_len: usize,
    stats: Vec<(u8, bool, ServerReason, ServerResponse)>,
    parsed: Option<RespInfo>,
    panicked: bool,
}

#[derive(Default, Clone)]
struct RespInfo {
    header: Vec<u8>,
    untrusted: Vec<String>,
    auth: Vec<String>,
    enc: Vec<String>,
    decrypt_failed: bool,
    has_enc: bool,
    cookies_ok: bool,
    cookie_lens: Vec<usize>,
}

fn resp_field(f: &ExtensionField<'_>, keyset: &KeySet, sess: &Option<Session>, info: &mut RespInfo) -> String {
    match f {
        ExtensionField::UniqueIdentifier(b) => format!("u:{}", hex(b)),
        ExtensionField::NtsCookie(b) => {
            let ok = match (keyset.decode_cookie(b), sess) {
                (Ok(dec), Some(s)) => {
                    u16::from(dec.algorithm) == s.alg && dec.s2c.key_bytes() == &s.s2c[..] && dec.c2s.key_bytes() == &s.c2s[..]
                }
                _ => false,
            };
            if !ok {
                info.cookies_ok = false;
            }
            info.cookie_lens.push(b.len());
            format!("c:{}:{}", b.len(), ok as u8)
        }
        ExtensionField::NtsCookiePlaceholder { cookie_length } => format!("p:{}", cookie_length),
        ExtensionField::InvalidNtsEncryptedField => "x".to_string(),
        ExtensionField::DraftIdentification(s) => format!("d:{}", s.len()),
        ExtensionField::Padding(n) => format!("g:{}", n),
        ExtensionField::ReferenceIdRequest(r) => format!("q:{}:{}", r.offset(), r.payload_len()),
        ExtensionField::ReferenceIdResponse(r) => format!("r:{}", hex(r.bytes())),
        ExtensionField::Unknown { type_id, data } => format!("k:{:04x}:{}", type_id, data.len()),
    }
}

fn describe_response(msg: &[u8], keyset: &KeySet, sess: &Option<Session>) -> (String, Option<RespInfo>) {
    let cipher = sess.as_ref().and_then(|s| make_cipher(&s.s2c));
    let parsed = match &cipher {
        Some(c) => NtpPacket::deserialize(msg, &**c),
        None => NtpPacket::deserialize(msg, &NoCipher),
    };
    let (packet, decrypt_failed) = match parsed {
        Ok((p, _)) => (p, false),
        Err(PacketParsingError::DecryptError(p)) => (p, true),
        Err(_) => return (format!("resp-unparsable len={} raw={}", msg.len(), hex(msg)), None),
    };
    let mut header = msg[..48].to_vec();
    if matches!(packet.header, NtpHeader::V5(_)) {
        // the v5 server cookie is random: masked
        for b in &mut header[16..24] {
            *b = 0;
        }
    }
    let mut info = RespInfo { header: header.clone(), cookies_ok: true, decrypt_failed, has_enc: raw_walk(msg, matches!(packet.header, NtpHeader::V5(_))).0 > 0, ..Default::default() };
    let u: Vec<String> = packet.efdata.untrusted.iter().map(|f| resp_field(f, keyset, sess, &mut info)).collect();
    let a: Vec<String> = packet.efdata.authenticated.iter().map(|f| resp_field(f, keyset, sess, &mut info)).collect();
    let e: Vec<String> = packet.efdata.encrypted.iter().map(|f| resp_field(f, keyset, sess, &mut info)).collect();
    let j = |v: &Vec<String>| if v.is_empty() { "-".to_string() } else { v.join(",") };
    let text = format!(
        "resp len={} hdr={} U={} A={} E={} mac={}",
        msg.len(),
        hex(&header),
        j(&u),
        j(&a),
        j(&e),
        mac_len(&packet)
    );
    info.untrusted = u;
    info.auth = a;
    info.enc = e;
    (text, Some(info))
}

fn run_handle(server: &mut Server<FixedClock>, ip: IpAddr, recv: u64, _now: u64, msg: &[u8], buf: usize, keyset: &KeySet, sess: &Option<Session>) -> Outcome {
    let mut stats = RecStats::default();
    let mut buffer = vec![0u8; buf];
    let action = match std::panic::catch_unwind(std::panic::AssertUnwindSafe(|| {
        match server.handle(ip, NtpTimestamp::from_fixed_int(recv), msg, &mut buffer, &mut stats) {
            ServerAction::Ignore => None,
            ServerAction::Respond { message } => Some(message.to_vec()),
        }
    })) {
        Ok(a) => a,
        Err(_) => {
            return Outcome { text: "panic".to_string(), responded: false, resp_len: 0, stats: vec![], parsed: None, panicked: true };
        }
    };
    match action {
        None => Outcome {
            text: format!("ignore stat={}", stats_str(&stats)),
            responded: false,
            resp_len: 0,
            stats: stats.entries,
            parsed: None,
            panicked: false,
        },
        Some(message) => {
            let message = &message[..];
            let (t, parsed) = describe_response(message, keyset, sess);
            Outcome {
                text: format!("{} stat={}", t, stats_str(&stats)),
                responded: true,
                resp_len: message.len(),
                stats: stats.entries,
                parsed,
                panicked: false,
            }
        }
    }
}

/// the abstract request record (model input) computed with the REAL parser; also checks the parser-output
/// invariants the model's theorems take as hypotheses (`WfReq`), reporting violations as oracle failures
/// of clause `parser_invariant`
struct Abs {
    text: String,
    parse: &'static str,
    version: u8,
    client: bool,
    has_cookie: bool,
    uids_out: Vec<Vec<u8>>,
    n_cookie_fields: usize,
    min_ck_field: usize,
    short_uid: bool,
    short_nonce: bool,
    min_nonce: usize,
    ck_lens: Vec<usize>,
}

fn abstract_request(msg: &[u8], keyset: &KeySet, run: &mut Run) -> Abs {
    let mut a = Abs {
        text: String::new(),
        parse: "err",
        version: 0,
        client: false,
        has_cookie: false,
        uids_out: vec![],
        n_cookie_fields: 0,
        min_ck_field: usize::MAX,
        short_uid: false,
        short_nonce: false,
        min_nonce: usize::MAX,
        ck_lens: vec![],
    };
    let parsed = match std::panic::catch_unwind(std::panic::AssertUnwindSafe(|| NtpPacket::deserialize(msg, keyset))) {
        Ok(r) => r,
        Err(_) => {
            // a panic inside the parser: an explicit input class of the model (`parse=panic`)
            a.parse = "panic";
            a.text = "parse=panic".to_string();
            let v5 = (msg.first().copied().unwrap_or(0) >> 3) & 7 == 5;
            a.min_nonce = raw_walk(msg, v5).2;
            return a;
        }
    };
    let (packet, cookie, parse) = match parsed {
        Ok((p, c)) => (p, c, "ok"),
        Err(PacketParsingError::DecryptError(p)) => (p, None, "dec"),
        Err(_) => {
            a.text = "parse=err".to_string();
            return a;
        }
    };
    a.parse = parse;
    let (v, poll, xmit, reft) = match packet.header {
        NtpHeader::V3(h) => (3u8, h.poll.as_byte(), h.transmit_timestamp.to_bits(), h.reference_timestamp.to_bits()),
        NtpHeader::V4(h) => (4u8, h.poll.as_byte(), h.transmit_timestamp.to_bits(), h.reference_timestamp.to_bits()),
        NtpHeader::V5(h) => (5u8, h.poll.as_byte(), h.client_cookie.0, [0u8; 8]),
    };
    a.version = v;
    a.client = packet.mode() == NtpAssociationMode::Client;
    a.has_cookie = cookie.is_some();
    let v5 = v == 5;
    let (encw, area_end, min_nonce) = raw_walk(msg, v5);
    a.min_nonce = min_nonce;
    a.short_nonce = cookie.is_some() && min_nonce < 16;
    let maclen = mac_len(&packet);
    let ck = match &cookie {
        None => "none".to_string(),
        Some(c) => u16::from(c.algorithm).to_string(),
    };
    a.text = format!(
        "parse={} v={} client={} poll={} xmit={} reft={} U={} A={} E={} ck={} encw={} mac={} dok={}",
        parse,
        v,
        a.client as u8,
        poll,
        hex(&xmit),
        hex(&reft),
        field_list(&packet.efdata.untrusted, |f| req_field(f, v5)),
        field_list(&packet.efdata.authenticated, |f| req_field(f, v5)),
        field_list(&packet.efdata.encrypted, |f| req_field(f, v5)),
        ck,
        encw,
        maclen,
        // computed here (not via the method fix F-C17d adds) so that the harness also builds on the unfixed code
        (!matches!(packet.header, NtpHeader::V5(_)) || packet.draft_id() == Some(crate::packet::v5::DRAFT_VERSION)) as u8
    );
    for f in packet.efdata.untrusted.iter().chain(packet.efdata.authenticated.iter()) {
        if let ExtensionField::UniqueIdentifier(b) = f {
            a.uids_out.push(b.to_vec());
            if b.len() < 24 {
                a.short_uid = true;
            }
        }
    }
    a.n_cookie_fields = packet
        .efdata
        .authenticated
        .iter()
        .chain(packet.efdata.encrypted.iter())
        .filter(|f| matches!(f, ExtensionField::NtsCookie(_) | ExtensionField::NtsCookiePlaceholder { .. }))
        .count();
    a.ck_lens = packet
        .efdata
        .authenticated
        .iter()
        .chain(packet.efdata.encrypted.iter())
        .filter_map(|f| match f {
            ExtensionField::NtsCookie(b) => Some(b.len()),
            ExtensionField::NtsCookiePlaceholder { cookie_length } => Some(*cookie_length as usize),
            _ => None,
        })
        .collect();
    // ---- parser-output invariants (hypotheses of the size theorems), checked on the real parser's output
    let wire = |f: &ExtensionField<'_>| -> usize {
        let body = match f {
            ExtensionField::UniqueIdentifier(b) | ExtensionField::NtsCookie(b) => b.len(),
            ExtensionField::NtsCookiePlaceholder { cookie_length } => *cookie_length as usize,
            ExtensionField::InvalidNtsEncryptedField => return 0, // counted through encw
            ExtensionField::DraftIdentification(s) => s.len(),
            ExtensionField::Padding(n) => *n,
            ExtensionField::ReferenceIdRequest(r) => r.payload_len() as usize,
            ExtensionField::ReferenceIdResponse(r) => r.bytes().len(),
            ExtensionField::Unknown { data, .. } => data.len(),
        };
        next4(4 + body)
    };
    if v != 3 {
        let sum: usize = packet.efdata.untrusted.iter().map(wire).sum::<usize>()
            + packet.efdata.authenticated.iter().map(wire).sum::<usize>()
            + encw;
        let exact = 48 + sum + maclen == msg.len();
        // v4 draft-id fields are trimmed on decode only in... (v4 decodes them as Unknown), so equality is exact
        if !exact {
            ofail(run, "parser_invariant", "which=size", &format!("48+fields({})+mac({}) != len({}) area_end={}", sum, maclen, msg.len(), area_end));
        }
        if v5 && (msg.len() % 4 != 0 || maclen != 0) {
            ofail(run, "parser_invariant", "which=v5-aligned", &format!("v5 request of length {} mac {}", msg.len(), maclen));
        }
    } else if !(packet.efdata.untrusted.is_empty() && packet.efdata.authenticated.is_empty() && packet.efdata.encrypted.is_empty()) || cookie.is_some() || parse != "ok" {
        ofail(run, "parser_invariant", "which=v3-plain", "v3 packet with fields, cookie or decrypt error");
    }
    if parse == "dec" && cookie.is_some() {
        ofail(run, "parser_invariant", "which=dec-no-cookie", "decrypt error with a cookie");
    }
    a
}

fn exec_case(ops: &[String], run: &mut Run) {
    let mut w = World::new();
    let mut key = String::new();
    let mut interesting = false;
    for op in ops {
        run.begin_op(op);
        let words: Vec<&str> = op.split_whitespace().collect();
        match words.first().copied() {
            Some("cfg") => {
                let r = &words[1..];
                let lst = |k: &str| -> Vec<String> {
                    let v = kv(r, k).unwrap_or("-");
                    if v == "-" { vec![] } else { v.split(';').map(|x| x.to_string()).collect() }
                };
                w.dlist_s = lst("dlist");
                w.alist_s = lst("alist");
                w.cfg.denylist = FilterList { filter: parse_subnets(kv(r, "dlist").unwrap_or("-")), action: parse_action(kv(r, "dact").unwrap_or("ignore")) };
                w.cfg.allowlist = FilterList { filter: parse_subnets(kv(r, "alist").unwrap_or("-")), action: parse_action(kv(r, "aact").unwrap_or("ignore")) };
                w.cfg.require_nts = match kv(r, "rnts") {
                    Some("ignore") => Some(FilterAction::Ignore),
                    Some("deny") => Some(FilterAction::Deny),
                    _ => None,
                };
                w.cfg.accepted_versions = match kv(r, "vers") {
                    None | Some("-") => vec![],
                    Some(s) => s
                        .split(',')
                        .map(|x| match x {
                            "3" => NtpVersion::V3,
                            "4" => NtpVersion::V4,
                            _ => NtpVersion::V5,
                        })
                        .collect(),
                };
                w.cfg.rate_limiting_cache_size = kv(r, "cache").and_then(|x| x.parse().ok()).unwrap_or(0);
                w.cfg.rate_limiting_cutoff = std::time::Duration::from_secs(kv(r, "cutoff").and_then(|x| x.parse().ok()).unwrap_or(0));
                w.denyf = IpFilter::new(&w.cfg.denylist.filter);
                w.allowf = IpFilter::new(&w.cfg.allowlist.filter);
                if let Some(k) = kv(r, "keys") {
                    w.keyfile = unhex(k).expect("keys hex");
                    let hist: usize = kv(r, "hist").and_then(|x| x.parse().ok()).unwrap_or(8);
                    w.keyset = load_keyset_hist(&w.keyfile, hist);
                }
                w.build();
                run.end_op("ok");
            }
            Some(op @ ("cfgsrv" | "updsrv")) => {
                let r = &words[1..];
                let g = |k: &str| kv(r, k).expect("cfgsrv key");
                let bloom = bloom_from_seed(g("bseed").parse().unwrap(), g("bn").parse().unwrap());
                w.info = NtpServerInfo {
                    time_snapshot: TimeSnapshot {
                        precision: NtpDuration::from_fixed_int(g("prec").parse().unwrap()),
                        root_delay: NtpDuration::from_fixed_int(g("rdelay").parse().unwrap()),
                        root_variance_base_time: NtpTimestamp::from_fixed_int(u64hex(g("vbt"))),
                        root_variance_base: f64unhex(g("vb")).unwrap(),
                        root_variance_linear: f64unhex(g("vl")).unwrap(),
                        root_variance_quadratic: f64unhex(g("vq")).unwrap(),
                        root_variance_cubic: f64unhex(g("vc")).unwrap(),
                        leap_indicator: leap_from_idx(g("leap").parse().unwrap()),
                        ..TimeSnapshot::default()
                    },
                    ntp_snapshot: NtpSnapshot {
                        stratum: g("stratum").parse().unwrap(),
                        reference_id: crate::identifiers::ReferenceId::from_int(u64hex(g("refid")) as u32),
                        bloom_filter: bloom,
                    },
                };
                if op == "cfgsrv" {
                    w.build();
                } else {
                    // the synchronisation state changes under a LIVING server: only the shared state is written
                    *w.shared.write().unwrap() = w.info;
                }
                // the model reads the filter bytes
                let raw: Vec<&str> = words.iter().copied().filter(|x| !x.starts_with("bloom=")).collect();
                let line = format!("{} bloom={}", raw.join(" "), hex(bloom.as_bytes()));
                run.end_op_as(&line, "ok");
            }
            Some("req" | "reqb") => {
                let r = &words[1..];
                let ip: IpAddr = kv(r, "ip").expect("ip").parse().expect("ip parse");
                let recv = u64hex(kv(r, "recv").expect("recv"));
                let now = u64hex(kv(r, "now").expect("now"));
                let msg = unhex(kv(r, "msg").expect("msg")).expect("msg hex");
                let buf_spec = kv(r, "buf").unwrap_or("len").to_string();
                let sess = match (kv(r, "s2c"), kv(r, "c2s"), kv(r, "alg")) {
                    (Some(s), Some(c), Some(a)) if s != "-" => Some(Session { alg: a.parse().unwrap(), s2c: unhex(s).unwrap(), c2s: unhex(c).unwrap() }),
                    _ => None,
                };
                // --- inputs the model takes as given: list membership (real IpFilter), rate-limit outcome
                let in_deny = w.denyf.is_in(ip);
                let in_allow = w.allowf.is_in(ip);
                let mut rate_ok = true;
                if !in_deny && in_allow {
                    // reference of the cache for sizes 0 / 1 (one slot) and cutoff 0 / huge
                    if w.cfg.rate_limiting_cache_size >= 1 {
                        if w.cfg.rate_limiting_cutoff.as_secs() > 0 && w.last_ip == Some(ip) {
                            rate_ok = false;
                        }
                        w.last_ip = Some(ip);
                    }
                }
                let abs = abstract_request(&msg, &w.keyset, run);
                // root variance polynomial, exactly as `TimeSnapshot::root_dispersion` evaluates it
                let ts = &w.info.time_snapshot;
                let t = (NtpTimestamp::from_fixed_int(recv) - ts.root_variance_base_time).to_seconds();
                let rvar = ts.root_variance_base + t * ts.root_variance_linear + t.powi(2) * ts.root_variance_quadratic + t.powi(3) * ts.root_variance_cubic;
                // the shadow server (4096-octet buffer) runs first: its answer's length is the NATURAL length, to which a
                // buffer specification `nat-<k>` / `nat+<k>` refers (resolved here and logged as a plain number, so
                // logged cases replay verbatim)
                let keyset = w.keyset.clone();
                w.clock.now.store(now, std::sync::atomic::Ordering::Relaxed);
                let big = run_handle(w.shadow.as_mut().expect("cfg first"), ip, recv, now, &msg, 4096, &keyset, &sess);
                let buf: usize = match buf_spec.as_str() {
                    "len" => msg.len(),
                    x if x.starts_with("nat") => {
                        let k: i64 = x[3..].parse().unwrap_or(0);
                        if big.responded { (big.resp_len as i64 + k).max(0) as usize } else { msg.len() }
                    }
                    x => x.parse().expect("buf"),
                };
                let raw: Vec<String> = words
                    .iter()
                    .copied()
                    .take_while(|x| *x != "|")
                    .map(|x| if x.starts_with("buf=nat") { format!("buf={}", buf) } else { x.to_string() })
                    .collect();
                let line = format!(
                    "{} | deny={} allow={} rate={} len={} fv={} blen={} rvar={} {}",
                    raw.join(" "),
                    in_deny as u8,
                    in_allow as u8,
                    rate_ok as u8,
                    msg.len(),
                    msg.first().map_or(0, |v| (v & 0b0011_1000) >> 3),
                    buf,
                    f64hex(rvar),
                    abs.text
                );
                run.begin_op(&line);
                let out = run_handle(w.server.as_mut().expect("cfg first"), ip, recv, now, &msg, buf, &keyset, &sess);
                oracle(run, &w, ip, rvar, &msg, buf, in_deny, in_allow, rate_ok, &abs, &sess, &out, &big);
                // branch histogram + non-triviality
                let kind = out.stats.first().map(|e| format!("{}-{}", reason_str(e.2), response_str(e.3))).unwrap_or_else(|| "nostat".into());
                run.hit(&format!("v{}-{}-{}{}", abs.version, abs.parse, kind, if abs.has_cookie { "-nts" } else { "" }));
                if out.responded {
                    interesting = true;
                }
                key.push_str(&format!("{}{}{}{}{};", abs.version, abs.parse, kind, out.resp_len, abs.has_cookie as u8));
                run.end_op_as(&line, &out.text);
            }
            _ => run.end_op("bad-op"),
        }
    }
    if interesting {
        run.nontrivial(&key);
    }
}

// ------------------------------------------------------------------------------------------------ oracle

/// The properties C15–C19, C21, C22 evaluated directly on what the implementation did (no model involved).

/// The same generator and executor serve all properties of the cluster; the stream name (`c15_main`,
/// `c22_malformed`, ...) selects the property whose oracle clauses are reported.  `srv_*` reports all.
fn clause_selected(clause: &str) -> bool {
    let stream = std::env::var("VERIF_STREAM").unwrap_or_default();
    match stream.split('_').next() {
        Some(p) if p.len() == 3 && p.starts_with('c') => clause.starts_with(&format!("{}_", p)),
        _ => true,
    }
}

fn ofail(run: &mut Run, clause: &str, attrs: &str, text: &str) {
    if clause_selected(clause) {
        run.oracle_fail(clause, attrs, text);
    }
}

/// The harness's OWN list membership (no `IpFilter`, no `IpSubnet`): plain prefix comparison on canonical values.
/// An IPv4-mapped IPv6 client address counts as its IPv4 address; an IPv4-mapped subnet with a mask of 96 bits or
/// more counts as the IPv4 subnet; everything else — in particular IPv4-COMPATIBLE `::a.b.c.d` and `::1` — is IPv6.
fn own_member(list: &[String], ip: IpAddr) -> bool {
    fn canon(ip: IpAddr) -> (bool, u128) {
        match ip {
            IpAddr::V4(a) => (true, u32::from(a) as u128),
            IpAddr::V6(a) => {
                let v = u128::from(a);
                if v >> 32 == 0xffff {
                    (true, v & 0xffff_ffff)
                } else {
                    (false, v)
                }
            }
        }
    }
    let (c4, cv) = canon(ip);
    list.iter().any(|e| {
        let (addr, mask) = match e.split_once('/') {
            Some((a, m)) => (a, m.parse::<u32>().unwrap_or(0)),
            None => (e.as_str(), 128),
        };
        let Ok(a) = addr.parse::<IpAddr>() else { return false };
        let (s4, sv, bits) = match a {
            IpAddr::V4(_) => {
                let (_, v) = canon(a);
                (true, v, mask.min(32))
            }
            IpAddr::V6(_) => {
                let (m4, v) = canon(a);
                if m4 && mask >= 96 { (true, v, mask - 96) } else { (false, u128::from(match a { IpAddr::V6(x) => x, _ => unreachable!() }), mask.min(128)) }
            }
        };
        if s4 != c4 {
            return false;
        }
        let width = if s4 { 32 } else { 128 };
        if bits == 0 {
            return true;
        }
        (sv >> (width - bits)) == (cv >> (width - bits))
    })
}

fn oracle(run: &mut Run, w: &World, ip: IpAddr, rvar: f64, msg: &[u8], buf: usize, in_deny: bool, in_allow: bool, rate_ok: bool, abs: &Abs, sess: &Option<Session>, out: &Outcome, big: &Outcome) {
    let attrs = |abs: &Abs| format!("v={} parse={} nts={} short_uid={}", abs.version, abs.parse, abs.has_cookie as u8, abs.short_uid as u8);
    let resp_kind = |o: &Outcome| -> &'static str {
        // classify the datagram itself (not the statistics): time / deny / nak / other
        match &o.parsed {
            None => "none",
            Some(p) => {
                let h = &p.header;
                let v = (h[0] >> 3) & 7;
                if h[1] != 0 {
                    "time"
                } else if v == 5 {
                    if h[15] & 0b100 != 0 {
                        "nak"
                    } else if h[2] == 0x7f {
                        "deny"
                    } else {
                        "kiss-other"
                    }
                } else if &h[12..16] == b"DENY" {
                    "deny"
                } else if &h[12..16] == b"NTSN" {
                    "nak"
                } else if &h[12..16] == b"RATE" {
                    "rate"
                } else {
                    "time"
                }
            }
        }
    };
    let kind = if out.responded { resp_kind(out) } else { "none" };
    // ---------------- C22
    if out.panicked || big.panicked {
        let site = common::last_panic();
        // the property's standing assumption on the synchronisation state (hypothesis `InfoOk` of the theorem):
        // root delay and root dispersion are representable in the header
        let rd = w.info.time_snapshot.root_delay;
        let disp = rvar.max(0.0).sqrt();
        let v5 = abs.version == 5;
        let info_ok = rd >= NtpDuration::from_fixed_int(0) && (v5 || rd <= NtpDuration::from_fixed_int(0x0000_FFFF_FFFF_FFFF)) && disp.is_finite() && (v5 || disp < 65536.0);
        if !info_ok && site.contains("time_types.rs") {
            return;
        }
        let cause = if site.contains("extension_fields.rs") && site.contains("left == right") || abs.parse == "panic" { "parser-nonce-assert" } else if site.contains("time_types.rs") { "time-assert" } else { "other" };
        ofail(run, "c22_panic", &format!("v={} cause={} min_nonce={}", abs.version, cause, if abs.min_nonce == usize::MAX { -1 } else { abs.min_nonce as i64 }), &format!("Server::handle panicked: {}", site));
        // C21: a datagram whose handling panics is not accounted for at all ("exactly one statistics entry for every
        // datagram ... and buffer size"); C17: nor is a decided answer sent or recorded as internal error
        if out.panicked {
            ofail(run, "c21_panic", &format!("v={} buf={} natural={}", abs.version, buf, big.resp_len), &format!("Server::handle panicked ({} statistics entries recorded): {}", out.stats.len(), site));
            ofail(run, "c17_panic", &format!("v={} buf={} natural={}", abs.version, buf, big.resp_len), &format!("Server::handle panicked: {}", site));
        }
        return;
    }
    // ---------------- C15: the policy clauses are evaluated against the harness's OWN list membership; the real
    // filter's answer (an input of the model) must agree with it
    let own_deny = own_member(&w.dlist_s, ip);
    let own_allow = own_member(&w.alist_s, ip);
    if own_deny != in_deny || own_allow != in_allow {
        ofail(run, "c15_membership", &attrs(abs), &format!("address {}: IpFilter says deny={} allow={}, prefix comparison says deny={} allow={}", ip, in_deny, in_allow, own_deny, own_allow));
    }
    let (in_deny, in_allow) = (own_deny, own_allow);
    let listed = in_deny || !in_allow;
    if listed {
        let act = if in_deny { w.cfg.denylist.action } else { w.cfg.allowlist.action };
        if act == FilterAction::Ignore && out.responded {
            ofail(run, "c15_listed_ignore", &attrs(abs), "listed client with action ignore received a datagram");
        }
        if out.responded && kind != "deny" {
            ofail(run, "c15_listed_deny_only", &attrs(abs), &format!("listed client received {}", kind));
        }
    }
    if out.responded && (abs.parse == "err" || !abs.client) {
        ofail(run, "c15_malformed_answered", &attrs(abs), "malformed or non-client datagram answered");
    }
    if out.responded && abs.parse != "err" {
        let ver = match abs.version {
            3 => NtpVersion::V3,
            4 => NtpVersion::V4,
            _ => NtpVersion::V5,
        };
        if !w.cfg.accepted_versions.contains(&ver) {
            ofail(run, "c15_version_gate", &attrs(abs), "request in a non-accepted version answered");
        }
    }
    if w.cfg.require_nts.is_some() && !abs.has_cookie && kind == "time" {
        ofail(run, "c15_require_nts", &attrs(abs), "plain request received time although NTS is required");
    }
    let ver_ok = abs.parse != "err" && {
        let ver = match abs.version {
            3 => NtpVersion::V3,
            4 => NtpVersion::V4,
            _ => NtpVersion::V5,
        };
        w.cfg.accepted_versions.contains(&ver)
    };
    let should_get_time = !listed && rate_ok && abs.parse == "ok" && abs.client && ver_ok && (w.cfg.require_nts.is_none() || abs.has_cookie);
    if should_get_time && !(big.responded && resp_kind(big) == "time") {
        ofail(run, "c15_accepted_gets_time", &attrs(abs), &format!("accepted request got {} (large buffer)", if big.responded { resp_kind(big) } else { "none" }));
    }
    // ---------------- C16
    if buf == msg.len() && out.responded && out.resp_len > msg.len() {
        ofail(run, "c16_amplification", &attrs(abs), &format!("answer {} > request {}", out.resp_len, msg.len()));
    }
    if out.responded && out.resp_len > buf {
        ofail(run, "c16_buffer_overrun", &attrs(abs), &format!("answer {} > buffer {}", out.resp_len, buf));
    }
    // ---------------- C17: policy decided to answer (large-buffer run answered) => the request-sized run answers the same
    if big.responded && buf == msg.len() {
        if !out.responded || big.resp_len > msg.len() {
            // classify for the known-finding signature: which echoed field grew
            let cause = growth_cause(msg, abs, big);
            ofail(run, 
                "c17_request_sized_buffer",
                &format!("v={} nts={} cause={}", abs.version, abs.has_cookie as u8, cause),
                &format!("answer needs {} bytes, request has {}; request-sized run: {}", big.resp_len, msg.len(), out.text.split(' ').next().unwrap_or("")),
            );
        }
    }
    // hypothesis `ParserFacts` of C22.never_panics
    if abs.parse == "ok" || abs.parse == "dec" {
        if abs.version == 3 && (abs.has_cookie || abs.parse == "dec") {
            ofail(run, "c22_parser_facts", &attrs(abs), "NTPv3 packet with NTS content");
        }
        if abs.version == 5 && msg.len() % 4 != 0 {
            ofail(run, "c22_parser_facts", &attrs(abs), "NTPv5 packet accepted whose length is not a multiple of 4");
        }
    }
    // hypotheses of C17.fits_unless_known_cause, evaluated on every parsed request:
    //   Accounted   48 + wire of the clear-text / authenticated fields + the encrypted field(s) <= request length
    //   NonceLong   (authenticated requests with nonces >= 16) 40 + wire of the decrypted fields <= encrypted field
    //   DraftPresent (accepted v5 packets) a draft identification of >= 23 octets is among the fields
    if abs.parse == "ok" || abs.parse == "dec" {
        let (sum_ua, sum_e, draft, encw) = req_wire_sums(&abs.text);
        if 48 + sum_ua + encw > msg.len() {
            ofail(run, "c17_accounting", &attrs(abs), &format!("fields account for {} bytes, request has {}", 48 + sum_ua + encw, msg.len()));
        }
        if abs.has_cookie && abs.min_nonce >= 16 && 40 + sum_e > encw {
            ofail(run, "c17_accounting", &attrs(abs), &format!("decrypted fields account for {} bytes, encrypted field has {}", 40 + sum_e, encw));
        }
        // parser facts about the draft identification (hypotheses `ReqFacts.okDraft` / `draftFact`)
        let dok = abs.text.contains(" dok=1");
        if abs.parse == "ok" && abs.version == 5 && !dok {
            ofail(run, "c17_accounting", &attrs(abs), "accepted NTPv5 packet without valid draft identification");
        }
        if abs.version == 5 && dok && !draft {
            ofail(run, "c17_accounting", &attrs(abs), "valid draft identification but no draft field of 23 octets among the fields");
        }
        if abs.version == 5 && !dok && out.responded {
            ofail(run, "c17_v5_without_draft_answered", &attrs(abs), "NTPv5 request without our draft identification was answered");
        }
    }
    // ---------------- C19
    // a request the parser reports as authenticated must authenticate under the session's c2s key when the
    // cipher is asked directly
    if abs.has_cookie && abs.parse == "ok" {
        if let Some(se) = sess {
            if independent_auth(msg, abs.version == 5, &se.c2s) != Some(true) {
                ofail(run, "c19_accepted_unauthenticated", &attrs(abs), "request accepted as authenticated although its authenticator does not verify under the c2s key");
            }
        }
    }
    // a request whose cookie decodes under the server's key set by the harness's OWN codec and whose authenticator
    // verifies under that cookie's c2s key is an authenticated request: the parser must say so
    if abs.parse == "ok" || abs.parse == "dec" {
        let fields = raw_fields(msg, abs.version == 5);
        let encs: Vec<usize> = fields.iter().enumerate().filter(|(_, f)| f.0 == 0x0404).map(|(i, _)| i).collect();
        if encs.len() == 1 && abs.version != 3 {
            let cookies: Vec<&(u16, usize, usize)> = fields[..encs[0]].iter().filter(|f| f.0 == 0x0204).collect();
            if cookies.len() == 1 {
                if let Some((_, _, c2s)) = own_decode_cookie(&w.keyfile, &msg[cookies[0].1..cookies[0].1 + cookies[0].2]) {
                    if independent_auth(msg, abs.version == 5, &c2s) == Some(true) && !(abs.parse == "ok" && abs.has_cookie) {
                        ofail(run, "c19_valid_request_rejected", &attrs(abs), "request with a cookie valid under the current key set and a verifying authenticator was not accepted as authenticated");
                    }
                }
            }
        }
    }
    if abs.parse == "dec" && kind == "time" {
        ofail(run, "c19_auth_fail_time", &attrs(abs), "time answer to a request whose authentication failed");
    }
    if abs.parse == "dec" && out.responded && !(kind == "nak" || kind == "deny") {
        ofail(run, "c19_auth_fail_kind", &attrs(abs), &format!("answer {} to a request whose authentication failed", kind));
    }
    if abs.parse == "dec" && out.responded && kind == "deny" && !listed && w.cfg.require_nts.is_none() {
        ofail(run, "c19_auth_fail_deny_without_policy", &attrs(abs), "DENY to an unauthenticated NTS request although policy does not deny the client");
    }
    if abs.has_cookie && kind == "time" {
        if let Some(p) = &out.parsed {
            if p.decrypt_failed || sess.is_none() || !p.has_enc {
                // known cause: no identifier to echo and no cookie / placeholder among the first eight fields
                let get = |k: &str| -> Vec<String> {
                    let v = abs.text.split(' ').find_map(|w| w.strip_prefix(&format!("{}=", k)).map(|v| v.to_string())).unwrap_or_default();
                    if v == "-" || v.is_empty() { vec![] } else { v.split(',').map(|x| x.to_string()).collect() }
                };
                let (a, e) = (get("A"), get("E"));
                let has_uid = a.iter().any(|t| t.starts_with("u:"));
                let ck_first8 = a.iter().chain(e.iter()).take(8).any(|t| t.starts_with("c:") || t.starts_with("p:"));
                let cause = if !p.has_enc && !p.decrypt_failed && abs.version == 4 && !has_uid && !ck_first8 { "empty-answer" } else { "other" };
                ofail(run, "c19_not_authenticated", &format!("{} cause={}", attrs(abs), cause), "time answer cannot be authenticated with the s2c key");
            }
            if !p.untrusted.is_empty() && !(abs.version == 5 && p.untrusted.iter().all(|f| f.starts_with("k:f501"))) {
                ofail(run, "c19_unauthenticated_content", &attrs(abs), &format!("unauthenticated fields in NTS time answer: {:?}", p.untrusted));
            }
            // every time answer to an authenticated request carries at least one fresh cookie (hence an
            // encrypted field and an authenticator), and the request holds the cookie it authenticated with
            if p.cookie_lens.is_empty() {
                ofail(run, "c19_no_fresh_cookie", &attrs(abs), "time answer to an authenticated request without fresh cookie");
            }
            let fresh_len = if abs.text.contains(" ck=17 ") { 168 } else { 104 };
            if !abs.text.split(' ').any(|w| w.starts_with("A=") && w[2..].split(',').any(|t| t.strip_prefix("c:").and_then(|n| n.parse::<usize>().ok()).map(|n| n >= fresh_len).unwrap_or(false))) {
                ofail(run, "c19_cookie_present", &attrs(abs), "authenticated request without a cookie field as long as a fresh cookie among its authenticated fields");
            }
            let n = p.cookie_lens.len();
            if n > 8 || n > abs.n_cookie_fields {
                ofail(run, "c19_cookie_count", &attrs(abs), &format!("{} fresh cookies for {} cookie/placeholder fields", n, abs.n_cookie_fields));
            }
            if !p.cookies_ok {
                ofail(run, "c19_cookie_keys", &attrs(abs), "fresh cookie does not decode to the session keys");
            }
            // none larger than the field it replaces: the fresh cookies (all of one length) must be matched by
            // as many distinct cookie / placeholder fields that are at least that long
            if let Some(l) = p.cookie_lens.iter().max() {
                let fit = abs.ck_lens.iter().filter(|x| **x >= *l).count();
                if n > fit {
                    ofail(run, "c19_cookie_size", &attrs(abs), &format!("{} fresh cookies of {} bytes but only {} fields that long", n, l, fit));
                }
            }
            if p.auth.iter().chain(p.untrusted.iter()).any(|f| f.starts_with("c:")) {
                ofail(run, "c19_cookie_in_clear", &attrs(abs), "cookie outside the encrypted part");
            }
        }
    }
    // ---------------- C21
    if out.stats.len() != 1 {
        ofail(run, "c21_exactly_one", &attrs(abs), &format!("{} statistics entries", out.stats.len()));
    } else {
        let (_, nts, reason, resp) = out.stats[0];
        let want = match kind {
            "time" => ServerResponse::ProvideTime,
            "deny" => ServerResponse::Deny,
            "nak" => ServerResponse::NTSNak,
            "none" => ServerResponse::Ignore,
            _ => ServerResponse::Ignore,
        };
        if resp != want || kind == "kiss-other" || kind == "rate" {
            ofail(run, "c21_kind_matches", &attrs(abs), &format!("statistics say {} but the server did {}", response_str(resp), kind));
        }
        // "NTS request" = a request that authenticated (cookie decoded).  A request whose authentication
        // failed is NTS-flagged exactly when it is answered with the NTS NAK.
        if nts && !(abs.has_cookie || abs.parse == "dec") {
            ofail(run, "c21_nts_flag_plain", &attrs(abs), "NTS flag set for a plain request");
        }
        // (or would have been, had the NAK fitted the buffer: reason internal error)
        if nts && abs.parse == "dec" && kind != "nak" && !(kind == "none" && reason == ServerReason::InternalError) {
            ofail(run, "c21_nts_flag_plain", &attrs(abs), "NTS flag set for an unauthenticated request that was not NAKed");
        }
        if out.responded && (abs.has_cookie || kind == "nak") && !nts {
            ofail(run, "c21_nts_flag_answered", &format!("{} kind={}", attrs(abs), kind), "NTS request answered but NTS flag clear");
        }
    }
    // ---------------- C18: a time answer carries the server's CURRENT stratum, leap, reference id and root delay
    // (the shared state as it was when `handle` was called — it may have changed since the previous request)
    if kind == "time" {
        if let Some(p) = &out.parsed {
            let h = &p.header;
            let info = &w.info;
            let v = (h[0] >> 3) & 7;
            if h[1] != info.ntp_snapshot.stratum {
                ofail(run, "c18_current_info", &attrs(abs), &format!("stratum {} but the current stratum is {}", h[1], info.ntp_snapshot.stratum));
            }
            if v != 5 {
                let want_leap = match info.time_snapshot.leap_indicator {
                    NtpLeapIndicator::NoWarning => 0,
                    NtpLeapIndicator::Leap61 => 1,
                    NtpLeapIndicator::Leap59 => 2,
                    _ => 3,
                };
                if h[0] >> 6 != want_leap {
                    ofail(run, "c18_current_info", &attrs(abs), &format!("leap bits {} but the current leap indicator encodes as {}", h[0] >> 6, want_leap));
                }
                if h[12..16] != info.ntp_snapshot.reference_id.to_bytes() {
                    ofail(run, "c18_current_info", &attrs(abs), "reference id is not the current one");
                }
                if h[4..8] != info.time_snapshot.root_delay.to_bits_short() {
                    ofail(run, "c18_current_info", &attrs(abs), "root delay is not the current one");
                }
            } else if h[4..8] != info.time_snapshot.root_delay.to_bits_time32() {
                ofail(run, "c18_current_info", &attrs(abs), "root delay is not the current one");
            }
        }
    }
    // ---------------- C18 (echo, byte level): a time answer echoes the request's poll byte and transmit timestamp
    // (NTPv5: client cookie) literally, for every byte value; its reference timestamp is the server's own
    // (receive time truncated to 2^7 s) or, only for an NTPv4 request carrying EXACTLY the upgrade marker, the marker
    if kind == "time" && msg.len() >= 48 {
        if let Some(p) = &out.parsed {
            let h = &p.header;
            let v = (h[0] >> 3) & 7;
            if h[2] != msg[2] {
                ofail(run, "c18_echo_poll", &attrs(abs), &format!("request poll byte {:#04x}, answer poll byte {:#04x}", msg[2], h[2]));
            }
            let want_origin = if v == 5 { &msg[24..32] } else { &msg[40..48] };
            if h[24..32] != *want_origin {
                ofail(run, "c18_echo_origin", &attrs(abs), "origin timestamp / client cookie is not the request's transmit timestamp / client cookie");
            }
            if v != 5 {
                let reft = u64::from_be_bytes(h[16..24].try_into().unwrap());
                let recv_ts = u64::from_be_bytes(h[32..40].try_into().unwrap());
                let own = recv_ts >> 39 << 39;
                // only `timestamp_response` (plain answers) returns the marker; NTS time answers never do
                let exact_marker = v == 4 && !p.has_enc && &msg[16..24] == b"NTP5DRFT";
                let ok = if exact_marker { &h[16..24] == b"NTP5DRFT" } else { reft == own };
                if !ok {
                    ofail(run, "c18_reference_ts", &attrs(abs), &format!("reference timestamp {:016x}: neither the server's ({:016x}) nor the marker for an exact-marker request (request had {})", reft, own, hex(&msg[16..24])));
                }
            }
        }
    }
    // ---------------- C16 / C23 boundary: the fields the parser framed are those a plain walk with the MAC cut-off
    // (a tail of at most 24 octets under NTPv4 is a MAC, whatever it looks like) frames
    if (abs.parse == "ok" || abs.parse == "dec") && abs.version >= 4 {
        let n_raw = raw_fields(msg, abs.version == 5).len();
        let cnt = |k: &str| -> usize {
            let v = abs.text.split(' ').find_map(|w| w.strip_prefix(&format!("{}=", k)).map(|v| v.to_string())).unwrap_or_default();
            if v == "-" || v.is_empty() { 0 } else { v.split(',').count() }
        };
        // every successfully decrypted authenticator is one framed field that does not show in U / A
        let n_enc = raw_fields(msg, abs.version == 5).iter().filter(|f| f.0 == 0x0404).count();
        let n_inv = abs.text.split(' ').find_map(|w| w.strip_prefix("U=")).map(|v| v.split(',').filter(|t| *t == "x").count()).unwrap_or(0);
        let n_parsed = cnt("U") + cnt("A") + (n_enc - n_inv.min(n_enc));
        if n_parsed != n_raw {
            ofail(run, "c16_field_framing", &attrs(abs), &format!("the parser framed {} fields, a walk with the MAC cut-off frames {}", n_parsed, n_raw));
        }
    }
    // ---------------- C18 (reflection, NTPv5 header): timescale, era and the reserved flag bits of an answer are the
    // server's own (UTC, era 0, no interleaved mode), whatever the request carried there
    if let Some(p) = &out.parsed {
        let h = &p.header;
        if (h[0] >> 3) & 7 == 5 && h.len() >= 16 {
            if h[12] != 0 || h[13] != 0 {
                ofail(run, "c18_reflects_only", &attrs(abs), &format!("NTPv5 answer carries timescale {} era {} (request: timescale {} era {}); the server's are 0 / 0", h[12], h[13], msg.get(12).copied().unwrap_or(0), msg.get(13).copied().unwrap_or(0)));
            }
            if h[14] != 0 || h[15] & !0b101 != 0 {
                ofail(run, "c18_reflects_only", &attrs(abs), &format!("NTPv5 answer carries flag bits {:02x}{:02x} beyond synchronized / authnak", h[14], h[15]));
            }
        }
    }
    // ---------------- C18 (reflection): every field of the answer is a uid of the request, a refid response, draft id, padding or a fresh cookie
    if let Some(p) = &out.parsed {
        for f in p.untrusted.iter().chain(p.auth.iter()).chain(p.enc.iter()) {
            let ok = if let Some(h) = f.strip_prefix("u:") {
                let body = unhex(h).unwrap_or_default();
                abs.uids_out.iter().any(|u| body.len() >= u.len() && body[..u.len()] == u[..] && body[u.len()..].iter().all(|b| *b == 0))
            } else {
                f.starts_with("c:") || f.starts_with("r:") || f.starts_with("d:") || f.starts_with("k:f501")
            };
            if !ok {
                ofail(run, "c18_reflects_only", &attrs(abs), &format!("answer field {} does not come from the request's identifiers", f));
            }
        }
    }
}

/// why an answer is larger than its request (attribute of the C17 oracle failure): which of the two known
/// growth mechanisms — identifier fields shorter than the encoder's minimum, a request nonce shorter than
/// the 16 octets the answer uses — suffices to explain the excess; anything else is `other`
fn growth_cause(msg: &[u8], abs: &Abs, big: &Outcome) -> &'static str {
    let overflow = big.resp_len.saturating_sub(msg.len());
    let mut uid_growth = 0usize;
    let mut has_enc = false;
    if let Some(p) = &big.parsed {
        has_enc = p.has_enc;
        let mut it = abs.uids_out.iter();
        for f in p.untrusted.iter().chain(p.auth.iter()) {
            if let Some(h) = f.strip_prefix("u:") {
                let body = unhex(h).unwrap_or_default();
                while let Some(u) = it.next() {
                    if body.len() >= u.len() && body[..u.len()] == u[..] && body[u.len()..].iter().all(|b| *b == 0) {
                        uid_growth += next4(4 + body.len()).saturating_sub(next4(4 + u.len()));
                        break;
                    }
                }
            }
        }
    }
    let nonce_growth = if has_enc && abs.min_nonce < 16 { 16 - next4(abs.min_nonce) } else { 0 };
    // an NTPv5 answer always carries the draft identification (28 octets); an NTPv5 request that fails
    // authentication is answered without having been checked for one
    let (_, _, req_draft, _) = req_wire_sums(&abs.text);
    let resp_draft = big.parsed.as_ref().map(|p| p.untrusted.iter().chain(p.auth.iter()).any(|f| f.starts_with("d:"))).unwrap_or(false);
    let draft_growth = if abs.version == 5 && resp_draft && !req_draft { 28 } else { 0 };
    // F-C17a is about the RFC 7822 minimum sizes (NTPv4 clear-text fields, and the 16 octets of authenticated fields
    // in both versions); clear-text NTPv5 fields have no minimum beyond their header, so an identifier that grows in
    // an NTPv5 answer without authenticator is NOT a known cause
    if abs.version == 5 && !has_enc && uid_growth > 0 && overflow > 0 {
        return "v5-field-growth";
    }
    if overflow == 0 {
        "none"
    } else if uid_growth >= overflow {
        "short-uid"
    } else if nonce_growth >= overflow {
        "short-nonce"
    } else if uid_growth + nonce_growth >= overflow {
        "short-uid+nonce"
    } else if draft_growth > 0 && uid_growth + nonce_growth + draft_growth >= overflow {
        "v5-no-draft"
    } else {
        "other"
    }
}

/// from the abstract request line: wire octets of the fields in U and A, of the fields in E, whether a draft
/// identification of at least 23 octets is among U / A, and the `encw` value
fn req_wire_sums(text: &str) -> (usize, usize, bool, usize) {
    let get = |k: &str| -> String {
        text.split(' ').find_map(|w| w.strip_prefix(&format!("{}=", k)).map(|v| v.to_string())).unwrap_or_default()
    };
    let wire = |tok: &str| -> usize {
        let parts: Vec<&str> = tok.split(':').collect();
        match parts.as_slice() {
            ["u", h] => next4(4 + if *h == "-" { 0 } else { h.len() / 2 }),
            ["c", n] | ["p", n] | ["d", n] | ["r", n] | ["g", n] => next4(4 + n.parse::<usize>().unwrap_or(0)),
            ["q", _, l] => next4(4 + l.parse::<usize>().unwrap_or(0)),
            ["k", _, n] => next4(4 + n.parse::<usize>().unwrap_or(0)),
            _ => 0,
        }
    };
    let list = |k: &str| -> Vec<String> {
        let v = get(k);
        if v == "-" || v.is_empty() { vec![] } else { v.split(',').map(|x| x.to_string()).collect() }
    };
    let (u, a, e) = (list("U"), list("A"), list("E"));
    let sum_ua: usize = u.iter().chain(a.iter()).map(|t| wire(t)).sum();
    let sum_e: usize = e.iter().map(|t| wire(t)).sum();
    let draft = u.iter().chain(a.iter()).any(|t| t.strip_prefix("d:").and_then(|n| n.parse::<usize>().ok()).map(|n| n >= 23).unwrap_or(false));
    (sum_ua, sum_e, draft, get("encw").parse().unwrap_or(0))
}

// ------------------------------------------------------------------------------------------------ generators

const IPS: &[&str] = &[
    "10.0.0.1", "10.0.0.2", "10.0.1.7", "10.1.0.1", "192.168.1.5", "192.168.1.130", "127.0.0.1", "8.8.8.8", "255.255.255.255",
    "::1", "2001:db8::1", "2001:db8:1::2", "fe80::1", "::ffff:10.0.0.1", "::ffff:192.168.1.5", "::ffff:8.8.8.8", "::",
    // IPv4-compatible addresses (::/96): IPv6 clients that must be matched against IPv6 entries
    "::10.0.0.1", "::192.168.1.5", "::8.8.8.8", "::2", "::ffff", "::1:0:0", "::fffe:10.0.0.1",
    // subnet edges
    "10.0.0.0", "10.0.0.255", "10.0.1.0", "9.255.255.255", "11.0.0.0", "192.168.1.127", "192.168.1.128", "2001:db8:0:ffff::1",
    "2001:db9::", "2001:db8:1:ffff:ffff:ffff:ffff:ffff", "2001:db8:2::", "febf:ffff::1", "fec0::1", "::ffff:10.0.0.2", "::ffff:11.0.0.0",
];
const SUBNETS: &[&str] = &[
    "10.0.0.0/8", "10.0.0.0/24", "10.0.0.1/32", "10.0.0.2/31", "192.168.1.0/25", "192.168.1.128/25", "0.0.0.0/0", "8.0.0.0/6",
    "2001:db8::/32", "2001:db8:1::/48", "::/0", "::1/128", "fe80::/10", "::ffff:10.0.0.0/104", "127.0.0.0/8",
    // IPv6 entries covering the IPv4-compatible range and parts of it
    "::/96", "::/8", "::10.0.0.0/104", "::8.8.8.8/128", "::/127", "::ffff:192.168.1.0/121",
];

fn gen_cfg(rng: &mut Rng) -> (String, Vec<u8>, u32, u32, usize) {
    let mut pick_list = |rng: &mut Rng, all_p: u64| -> String {
        if rng.chance(all_p, 10) {
            return "0.0.0.0/0;::/0".to_string();
        }
        let n = rng.usize(0, 4);
        if n == 0 {
            return "-".to_string();
        }
        (0..n).map(|_| rng.pick(SUBNETS).to_string()).collect::<Vec<_>>().join(";")
    };
    let dlist = if rng.chance(5, 10) { "-".to_string() } else { pick_list(rng, 1) };
    let alist = pick_list(rng, 6);
    let dact = *rng.pick(&["ignore", "deny"]);
    let aact = *rng.pick(&["ignore", "deny"]);
    let rnts = *rng.pick(&["none", "none", "none", "ignore", "deny"]);
    let vers = match rng.below(10) {
        0 => "-".to_string(),
        1 => "4".to_string(),
        2 => "3,4".to_string(),
        3 => "5".to_string(),
        4 => "4,5".to_string(),
        5 => "3".to_string(),
        _ => "3,4,5".to_string(),
    };
    let (cache, cutoff) = match rng.below(8) {
        0 => (1, 3600),
        1 => (64, 0),
        2 => (1, 0),
        _ => (0, 0),
    };
    // key set file: time(8) id_offset(4) primary(4) len(4) keys(64 each)
    let nkeys = rng.usize(1, 6);
    // history the daemon is configured with when it loads the stored key set: below / at / above the key count
    let hist = *rng.pick(&[0usize, 1, 2, 3, 4, 5, 8, 8]);
    let primary = if rng.chance(7, 10) { nkeys - 1 } else { rng.usize(0, nkeys - 1) };
    // id offsets at / next to the u32 wrap: with two or three keys the ids of the newer keys wrap to 0, 1
    let id_offset: u32 = match rng.below(6) {
        0 => 0,
        1 => u32::MAX,
        2 => 1,
        3 => u32::MAX - 1,
        4 => u32::MAX - 2,
        _ => rng.next_u64() as u32,
    };
    let mut file = vec![];
    file.extend_from_slice(&1_700_000_000u64.to_be_bytes());
    file.extend_from_slice(&id_offset.to_be_bytes());
    file.extend_from_slice(&(primary as u32).to_be_bytes());
    file.extend_from_slice(&(nkeys as u32).to_be_bytes());
    for _ in 0..nkeys {
        file.extend_from_slice(&rng.bytes(64));
    }
    let line = format!(
        "cfg dact={} dlist={} aact={} alist={} rnts={} vers={} cache={} cutoff={} hist={} keys={}",
        dact, dlist, aact, alist, rnts, vers, cache, cutoff, hist, hex(&file)
    );
    (line, file, id_offset, primary as u32, nkeys)
}

fn gen_cfgsrv(rng: &mut Rng, hostile: bool) -> (String, u64) {
    let stratum = match rng.below(6) {
        0 => 16,
        1 => 2,
        2 => 1,
        3 => 15,
        _ => 1 + rng.below(16),
    };
    let vbt: u64 = match rng.below(4) {
        0 => 0,
        _ => 0xE8_00_00_00_0000_0000u64.wrapping_add(rng.next_u64() >> 24),
    };
    let small = |rng: &mut Rng| rng.f64_unit() * 1e-6;
    let (mut vb, mut vl, mut vq, mut vc) = (small(rng), small(rng) * 1e-3, small(rng) * 1e-6, small(rng) * 1e-9);
    if rng.chance(1, 4) {
        vb = 0.0;
        vl = 0.0;
        vq = 0.0;
        vc = 0.0;
    }
    if hostile {
        match rng.below(6) {
            0 => vb = f64::NAN,
            1 => vb = -1e-9,
            2 => vc = 1e30,
            3 => vl = f64::INFINITY,
            4 => vq = -1.0,
            _ => {}
        }
    }
    let rdelay: i64 = match rng.below(8) {
        0 => 0,
        1 => 0x0000_FFFF_FFFF_FFFF,
        2 if hostile => -1,
        3 if hostile => 0x0001_0000_0000_0000,
        _ => (rng.next_u64() >> 30) as i64,
    };
    let prec: i64 = match rng.below(6) {
        0 => 0,
        1 => 1,
        2 if hostile => -5,
        _ => 1 << rng.below(33),
    };
    let line = format!(
        "cfgsrv stratum={} refid={:08x} leap={} prec={} rdelay={} vbt={:016x} vb={} vl={} vq={} vc={} bseed={} bn={}",
        stratum,
        rng.next_u64() as u32,
        rng.below(5),
        prec,
        rdelay,
        vbt,
        f64hex(vb),
        f64hex(vl),
        f64hex(vq),
        f64hex(vc),
        rng.below(1000),
        rng.below(40)
    );
    (line, vbt)
}

fn rb(rng: &mut Rng, lo: usize, hi: usize, mult: usize) -> Vec<u8> {
    let n = rng.usize(lo, hi) * mult;
    rng.bytes(n)
}

fn raw_field(ty: u16, declared: usize, body: &[u8]) -> Vec<u8> {
    let mut f = vec![];
    f.extend_from_slice(&ty.to_be_bytes());
    f.extend_from_slice(&(declared as u16).to_be_bytes());
    f.extend_from_slice(body);
    while f.len() % 4 != 0 {
        f.push(0);
    }
    f
}

fn field(ty: u16, body: &[u8]) -> Vec<u8> {
    raw_field(ty, 4 + body.len(), body)
}

const DRAFT: &str = "draft-ietf-ntp-ntpv5-09";

fn header_v34(rng: &mut Rng, version: u8, mode: u8, upgrade: bool) -> Vec<u8> {
    let mut h = vec![0u8; 48];
    h[0] = ((rng.below(4) as u8) << 6) | (version << 3) | mode;
    h[1] = rng.below(17) as u8;
    // poll byte: the whole byte range, one request in three with the top bit set
    h[2] = match rng.below(6) {
        0 => 0x80 | (rng.next_u64() as u8),
        1 => *rng.pick(&[0x80u8, 0x81, 0xfe, 0xff]),
        2 => rng.next_u64() as u8,
        _ => *rng.pick(&[0u8, 4, 6, 10, 17, 0x7f]),
    };
    h[3] = rng.next_u64() as u8;
    for b in &mut h[4..48] {
        *b = rng.next_u64() as u8;
    }
    if rng.chance(1, 3) {
        for b in &mut h[4..40] {
            *b = 0;
        }
    }
    if upgrade {
        h[16..24].copy_from_slice(b"NTP5DRFT");
    } else if version == 4 && rng.chance(1, 4) {
        // near misses of the upgrade marker in the reference timestamp: only the EXACT marker is answered with it
        let mut m = *b"NTP5DRFT";
        match rng.below(5) {
            0 => {
                for b in &mut m[4..8] {
                    *b = rng.next_u64() as u8;
                }
            }
            1 => m[7] = rng.next_u64() as u8,
            2 => m.copy_from_slice(b"NTP5NTP5"),
            3 => {
                let i = rng.usize(0, 63);
                m[i / 8] ^= 1 << (i % 8);
            }
            _ => m[0..4].copy_from_slice(b"NTP4"),
        }
        h[16..24].copy_from_slice(&m);
    }
    h
}

fn header_v5(rng: &mut Rng, mode: u8) -> Vec<u8> {
    let mut h = vec![0u8; 48];
    h[0] = ((rng.below(4) as u8) << 6) | (5 << 3) | mode;
    h[1] = rng.below(17) as u8;
    h[2] = match rng.below(6) {
        0 => 0x80 | (rng.next_u64() as u8),
        1 => *rng.pick(&[0x80u8, 0x81, 0xfe, 0xff]),
        2 => rng.next_u64() as u8,
        _ => *rng.pick(&[0u8, 4, 6, 10, 17, 0x7f]),
    };
    h[3] = rng.next_u64() as u8;
    for b in &mut h[4..12] {
        *b = rng.next_u64() as u8;
    }
    h[12] = if rng.chance(1, 30) { 4 } else { rng.below(4) as u8 };
    h[13] = rng.next_u64() as u8;
    h[14] = if rng.chance(1, 30) { 1 } else { 0 };
    h[15] = if rng.chance(1, 30) { 8 } else { rng.below(8) as u8 };
    for b in &mut h[16..48] {
        *b = rng.next_u64() as u8;
    }
    h
}

fn uid_len(rng: &mut Rng) -> usize {
    match rng.below(12) {
        0 => 0,
        1 => 4,
        2 => 8,
        3 => 12,
        4 => 20,
        5 => 24,
        6 => 28,
        7 => rng.usize(1, 40),
        _ => 32,
    }
}

fn mode(rng: &mut Rng) -> u8 {
    if rng.chance(15, 16) {
        3
    } else {
        rng.below(8) as u8
    }
}

fn trailing_mac(rng: &mut Rng) -> Vec<u8> {
    if rng.chance(1, 5) {
        // the boundary of the MAC cut-off: a tail of exactly 20 / 24 / 28 octets that is FRAMED like an extension
        // field (length word = tail length) of several types; up to 24 octets it is a MAC, not a field
        let n = *rng.pick(&[20usize, 24, 24, 24, 28]);
        let ty = *rng.pick(&[0x0104u16, 0x0104, 0x0204, 0x0304, 0x4242, 0x0404]);
        let mut t = ty.to_be_bytes().to_vec();
        t.extend_from_slice(&(n as u16).to_be_bytes());
        t.extend(if ty == 0x0304 { vec![0u8; n - 4] } else { rng.bytes(n - 4) });
        return t;
    }
    match rng.below(10) {
        0 => rng.bytes(4),
        1 => rng.bytes(20),
        2 => rng.bytes(24),
        3 => rb(rng, 1, 28, 1),
        4 => rng.bytes(17),
        _ => vec![],
    }
}

fn gen_plain_v4(rng: &mut Rng) -> Vec<u8> {
    let v = if rng.chance(1, 6) { 3 } else { 4 };
    let md = mode(rng);
    let up = v == 4 && rng.chance(1, 5);
    let mut m = header_v34(rng, v, md, up);
    if v == 4 {
        let n = match rng.below(6) {
            0 | 1 | 2 => 0,
            3 => 1,
            4 => 2,
            _ => rng.usize(1, 4),
        };
        for _ in 0..n {
            match rng.below(6) {
                0 => m.extend(field(rng.next_u64() as u16, &rb(rng, 0, 8, 4))),
                1 => m.extend(field(0x0204, &rb(rng, 0, 30, 4))),
                2 => m.extend(field(0x0304, &vec![0; 4 * rng.usize(0, 30)])),
                _ => {
                    let l = uid_len(rng);
                    m.extend(field(0x0104, &rng.bytes(l & !3)));
                }
            }
        }
    }
    m.extend(trailing_mac(rng));
    m
}

fn gen_plain_v5(rng: &mut Rng) -> Vec<u8> {
    let md = mode(rng);
    let mut m = header_v5(rng, md);
    let mut fields: Vec<Vec<u8>> = vec![];
    if rng.chance(19, 20) {
        fields.push(field(0xF5FF, DRAFT.as_bytes()));
    } else if rng.chance(1, 2) {
        fields.push(field(0xF5FF, b"draft-ietf-ntp-ntpv5-08"));
    }
    if rng.chance(1, 6) {
        // nothing but the draft identification and 1..3 SHORT identifiers (0..12 octets): an NTPv5 answer must
        // fit the request however short its echoed fields are
        for _ in 0..rng.usize(1, 3) {
            let l = rng.usize(0, 12);
            fields.push(field(0x0104, &rng.bytes(l)));
        }
        for f in fields {
            m.extend(f);
        }
        return m;
    }
    let n = rng.usize(0, 3);
    for _ in 0..n {
        match rng.below(7) {
            0 => fields.push(field(rng.next_u64() as u16, &rb(rng, 0, 30, 1))),
            1 | 2 => {
                let l = uid_len(rng);
                fields.push(field(0x0104, &rng.bytes(l)));
            }
            3 | 4 => {
                // reference id request: offset / length classes around the 512-byte filter
                let plen = *rng.pick(&[2usize, 4, 8, 16, 64, 508, 512, 516]);
                let off = *rng.pick(&[0u16, 4, 8, 256, 496, 504, 508, 512, 516, 65535]);
                let mut body = vec![0u8; plen];
                body[..2].copy_from_slice(&off.to_be_bytes());
                fields.push(field(0xF503, &body));
            }
            5 => fields.push(field(0xF501, &vec![0u8; rng.usize(0, 40)])),
            _ => fields.push(field(0xF504, &rb(rng, 0, 8, 4))),
        }
    }
    // shuffle
    for i in (1..fields.len()).rev() {
        let j = rng.usize(0, i);
        fields.swap(i, j);
    }
    for f in fields {
        m.extend(f);
    }
    if rng.chance(1, 20) {
        m.extend(rb(rng, 1, 8, 1));
    }
    m
}

struct NtsCtx {
    sess: Session,
    cookie: Vec<u8>,
    /// byte mode: the ideal-AEAD table entry of the encryption that made `cookie` (`key;nonce;aad;ct;pt`)
    cookie_seal: String,
}

fn gen_session(rng: &mut Rng, keyset: &KeySet, file: &[u8], nkeys: usize) -> NtsCtx {
    let big = rng.chance(1, 3);
    let (alg, kl) = if big { (17u16, 64) } else { (15u16, 32) };
    let s2c = rng.bytes(kl);
    let c2s = rng.bytes(kl);
    let dec = crate::keyset::DecodedServerCookie {
        algorithm: AeadAlgorithm::from(alg),
        s2c: make_cipher(&s2c).unwrap(),
        c2s: make_cipher(&c2s).unwrap(),
    };
    let sess = Session { alg, s2c, c2s };
    // half of the sessions hold a cookie sealed under an arbitrary (possibly older, non-primary) key of the set,
    // made by the harness's own codec; the others one from `KeySet::encode_cookie` (primary key)
    let cookie = if rng.chance(1, 2) {
        let ki = rng.usize(0, nkeys - 1);
        own_cookie(rng, file, ki, &sess)
    } else {
        keyset.encode_cookie(&dec)
    };
    // table entry of the cookie's sealing: key = the key of the file its id names, nonce / ciphertext read back
    let hx = |b: &[u8]| if b.is_empty() { "-".to_string() } else { hex(b) };
    let id_offset = u32::from_be_bytes(file[8..12].try_into().unwrap());
    let ki = u32::from_be_bytes(cookie[0..4].try_into().unwrap()).wrapping_sub(id_offset) as usize;
    let cl = u16::from_be_bytes([cookie[4], cookie[5]]) as usize;
    let mut pt = sess.alg.to_be_bytes().to_vec();
    pt.extend_from_slice(&sess.s2c);
    pt.extend_from_slice(&sess.c2s);
    let cookie_seal = format!("{};{};-;{};{}", hx(&file[20 + 64 * ki..20 + 64 * (ki + 1)]), hx(&cookie[6..22]), hx(&cookie[22..22 + cl]), hx(&pt));
    NtsCtx { sess, cookie, cookie_seal }
}

thread_local! {
    /// byte mode: the ideal-AEAD table entries (`key;nonce;aad;ct;pt`) of the encryptions made for the request
    /// under construction
    static SEALS: std::cell::RefCell<Vec<String>> = const { std::cell::RefCell::new(Vec::new()) };
    /// byte mode streams emit `reqb` ops
    static BYTE_MODE: std::cell::Cell<bool> = const { std::cell::Cell::new(false) };
    /// corpus cases: force the number of leading unknown fields of `gen_nts` (no identifier then)
    static FORCE_LEAD: std::cell::Cell<Option<usize>> = const { std::cell::Cell::new(None) };
    /// corpus cases: force the nonce-length choice of `gen_nts`
    static FORCE_NONCE: std::cell::Cell<Option<u64>> = const { std::cell::Cell::new(None) };
}

fn gen_nts(rng: &mut Rng, v5: bool, ctx: &NtsCtx, id_offset: u32, nkeys: usize) -> Vec<u8> {
    let md = mode(rng);
    let mut m = if v5 { header_v5(rng, md) } else { header_v34(rng, 4, md, false) };
    let mut cookie = ctx.cookie.clone();
    // cookie perturbations
    match rng.below(24) {
        0 => {
            let i = rng.usize(0, cookie.len() - 1);
            cookie[i] ^= 1 << rng.below(8);
        }
        1 => {
            // key id of a key that does not exist (rotated out)
            let id = id_offset.wrapping_add(nkeys as u32 + rng.below(3) as u32);
            cookie[0..4].copy_from_slice(&id.to_be_bytes());
        }
        2 => cookie.truncate(rng.usize(0, 24) & !3),
        3 => cookie.extend(vec![0u8; 4 * rng.usize(1, 4)]),
        _ => {}
    }
    let ul = if rng.chance(3, 4) { 32 } else { uid_len(rng) };
    let ul = if v5 { ul } else { ul & !3 };
    let mut auth: Vec<Vec<u8>> = vec![];
    let mut inner: Vec<Vec<u8>> = vec![];
    // F-C19a: some requests carry no identifier and 6..10 unknown fields before the cookie, so that the cookie
    // (and the placeholders) sit beyond the first eight authenticated fields
    let lead = match FORCE_LEAD.with(|c| c.get()) {
        Some(n) => n,
        None => if rng.chance(1, 40) { rng.usize(6, 10) } else { 0 },
    };
    if lead == 0 {
        auth.push(field(0x0104, &rng.bytes(ul)));
        if rng.chance(1, 12) {
            let l = uid_len(rng);
            auth.push(field(0x0104, &rng.bytes(if v5 { l } else { l & !3 })));
        }
    } else {
        for _ in 0..lead {
            let n = 4 * rng.usize(1, 3);
            auth.push(field(0x4242, &rng.bytes(n)));
        }
    }
    auth.push(field(0x0204, &cookie));
    let nph = match rng.below(8) {
        0 => 0,
        1 => 7,
        2 => 8,
        3 => 9,
        _ => rng.usize(0, 7),
    };
    for _ in 0..nph {
        let l = match rng.below(8) {
            0 => cookie.len().saturating_sub(4),
            1 => cookie.len() + 4,
            2 => 0,
            _ => cookie.len(),
        };
        let f = field(0x0304, &vec![0u8; l]);
        if rng.chance(1, 6) {
            inner.push(f);
        } else {
            auth.push(f);
        }
    }
    if rng.chance(1, 10) {
        inner.push(field(0x0204, &rb(rng, 0, 30, 4)));
    }
    if rng.chance(1, 8) {
        auth.push(field(rng.next_u64() as u16 | 0x8000, &rb(rng, 0, 6, 4)));
    }
    if rng.chance(1, 10) {
        inner.push(field(0x0104, &rb(rng, 0, 9, 4)));
    }
    if rng.chance(1, 25) {
        // second cookie in the clear: no cipher can be chosen
        auth.push(field(0x0204, &ctx.cookie));
    }
    let mut after: Vec<Vec<u8>> = vec![];
    if v5 {
        let d = field(0xF5FF, DRAFT.as_bytes());
        match rng.below(8) {
            0 => after.push(d),
            1 => {}
            _ => auth.push(d),
        }
        if rng.chance(1, 4) {
            let plen = *rng.pick(&[4usize, 16, 512, 516]);
            let off = *rng.pick(&[0u16, 8, 496, 508, 512]);
            let mut body = vec![0u8; plen];
            body[..2].copy_from_slice(&off.to_be_bytes());
            auth.push(field(0xF503, &body));
        }
    }
    if rng.chance(1, 12) {
        let l = uid_len(rng);
        after.push(field(0x0104, &rng.bytes(if v5 { l } else { l & !3 })));
    }
    for f in &auth {
        m.extend(f.iter());
    }
    let pt: Vec<u8> = inner.concat();
    let nonce_len = match FORCE_NONCE.with(|c| c.get()).unwrap_or_else(|| rng.below(48)) {
        0 => 0,
        1 => 8,
        2 => 12,
        3 => 15,
        4 => 17,
        5 => 32,
        _ => 16,
    };
    let nonce = rng.bytes(nonce_len);
    let mut ct = siv_encrypt(&ctx.sess.c2s, &m, &nonce, &pt);
    {
        let hx = |b: &[u8]| if b.is_empty() { "-".to_string() } else { hex(b) };
        let e = format!("{};{};{};{};{}", hx(&ctx.sess.c2s), hx(&nonce), hx(&m), hx(&ct), hx(&pt));
        SEALS.with(|v| {
            let mut v = v.borrow_mut();
            v.push(ctx.cookie_seal.clone());
            v.push(e);
        });
    }
    match rng.below(16) {
        0 => {
            let i = rng.usize(0, ct.len() - 1);
            ct[i] ^= 0x40;
        }
        1 => ct = siv_encrypt(&ctx.sess.s2c, &m, &nonce, &pt),
        // no (or a truncated) AEAD tag: an authenticator that cannot authenticate anything
        2 if rng.chance(1, 2) => ct.clear(),
        3 if rng.chance(1, 4) => ct.truncate(rng.usize(0, 15)),
        _ => {}
    }
    let mut body = vec![];
    body.extend_from_slice(&(nonce.len() as u16).to_be_bytes());
    body.extend_from_slice(&(ct.len() as u16).to_be_bytes());
    body.extend_from_slice(&nonce);
    while body.len() % 4 != 0 {
        body.push(0);
    }
    body.extend_from_slice(&ct);
    while body.len() % 4 != 0 {
        body.push(0);
    }
    m.extend(field(0x0404, &body));
    for f in &after {
        m.extend(f.iter());
    }
    if !v5 {
        m.extend(trailing_mac(rng));
    }
    m
}

/// One point of the sweep over NTS authenticator (type 0x0404) field shapes: stated field length 4..=44 (every
/// value, also non-multiples of 4), nonce-length word 0..=24, NTPv4 / NTPv5 framing are enumerated by `combo`
/// (41 * 25 * 2 = 2050 points); the ciphertext-length word (0..=40, 0xffff), a preceding valid cookie, bytes after
/// the field and (v5) the draft identification are drawn at random.  The direct oracle is "handle returned".
fn gen_auth_shape(rng: &mut Rng, combo: u64, ctx: &NtsCtx) -> Vec<u8> {
    let flen = 4 + (combo % 41) as usize;
    let nonce_w = ((combo / 41) % 25) as u16;
    let v5 = (combo / (41 * 25)) % 2 == 1;
    let ct_w: u16 = match rng.below(42) {
        41 => 0xffff,
        n => n as u16,
    };
    let mut m = if v5 { header_v5(rng, 3) } else { header_v34(rng, 4, 3, false) };
    if v5 && rng.chance(3, 4) {
        m.extend(field(0xF5FF, b"draft-ietf-ntp-ntpv5-09"));
    }
    if rng.chance(1, 2) {
        m.extend(field(0x0204, &ctx.cookie));
    }
    let mut f = vec![0x04, 0x04];
    f.extend_from_slice(&(flen as u16).to_be_bytes());
    let mut body = vec![];
    body.extend_from_slice(&nonce_w.to_be_bytes());
    body.extend_from_slice(&ct_w.to_be_bytes());
    body.extend(rng.bytes(40));
    body.truncate(flen - 4);
    f.extend(body);
    while f.len() % 4 != 0 {
        f.push(0);
    }
    m.extend(f);
    if rng.chance(1, 2) {
        // v4: more than a MAC's worth of bytes so that the field is framed as an extension field
        let n = if v5 { rng.usize(1, 30) } else { rng.usize(25, 44) };
        m.extend(rng.bytes(n));
    }
    m
}

fn mutate(rng: &mut Rng, mut m: Vec<u8>) -> Vec<u8> {
    match rng.below(6) {
        0 if !m.is_empty() => {
            let i = rng.usize(0, m.len() - 1);
            m[i] ^= 1 << rng.below(8);
        }
        1 if !m.is_empty() => {
            let l = rng.usize(0, m.len());
            m.truncate(l);
        }
        2 => m.extend(rb(rng, 1, 30, 1)),
        3 if m.len() > 52 => {
            // length-field lie in the first extension field
            let v = rng.next_u64() as u16 % 80;
            m[50..52].copy_from_slice(&v.to_be_bytes());
        }
        4 if !m.is_empty() => {
            let i = rng.usize(0, m.len() - 1);
            m[i] = rng.next_u64() as u8;
        }
        _ => {
            if !m.is_empty() {
                m[0] = (m[0] & 0xC7) | ((rng.below(8) as u8) << 3);
            }
        }
    }
    m
}

/// design-time witnesses: always the first cases of the structured stream
fn witness(idx: u64) -> Option<Vec<u8>> {
    let mut h = vec![0u8; 48];
    h[0] = (4 << 3) | 3;
    for i in 40..48 {
        h[i] = i as u8;
    }
    match idx {
        0 => {
            // F-C17: 48-byte v4 client header + UniqueIdentifier field of total length 8 + 17 trailing bytes
            let mut m = h.clone();
            m.extend_from_slice(&[0x01, 0x04, 0x00, 0x08, 0xAA, 0xBB, 0xCC, 0xDD]);
            m.extend(vec![0x11u8; 17]);
            Some(m)
        }
        1 => {
            // variant: identifier field of 16 octets as the last field + 9-byte MAC
            let mut m = h.clone();
            m.extend(field(0x0104, &[7u8; 12]));
            m.extend(vec![0x22u8; 9]);
            Some(m)
        }
        _ => None,
    }
}

fn gen_case_with(rng: &mut Rng, idx: u64, malformed: bool, hostile_info: bool) -> Vec<String> {
    let (mut cfgline, file, id_offset, _primary, nkeys) = gen_cfg(rng);
    if !malformed && idx <= 6 {
        // corpus cases run under a permissive policy so that the witness request is really handled
        cfgline = cfgline
            .split(' ')
            .map(|w| match w.split_once('=') {
                Some(("dlist", _)) => "dlist=-".to_string(),
                Some(("alist", _)) => "alist=0.0.0.0/0;::/0".to_string(),
                Some(("rnts", _)) => "rnts=none".to_string(),
                Some(("vers", _)) => "vers=3,4,5".to_string(),
                Some(("cache", _)) => "cache=0".to_string(),
                _ => w.to_string(),
            })
            .collect::<Vec<_>>()
            .join(" ");
    }
    let keyset = load_keyset(&file);
    let (mut srvline, mut vbt) = gen_cfgsrv(rng, hostile_info);
    if !malformed && idx == 2 {
        // F-C22b: positive variance slope, zero base: negative variance one second before the base time
        srvline = format!(
            "cfgsrv stratum=2 refid=7f000001 leap=0 prec=4096 rdelay=65536 vbt={:016x} vb={} vl={} vq={} vc={} bseed=1 bn=3",
            vbt, f64hex(0.0), f64hex(1e-9), f64hex(0.0), f64hex(0.0)
        );
    }
    let mut ops = vec![cfgline, srvline];
    let nreq = rng.usize(1, 6);
    let ctx = gen_session(rng, &keyset, &file, nkeys);
    let mut prev: Option<String> = None;
    for k in 0..nreq {
        SEALS.with(|v| v.borrow_mut().clear());
        let mut sess_used = false;
        let msg = if !malformed && k == 0 && witness(idx).is_some() {
            witness(idx).unwrap()
        } else if !malformed && k == 0 && idx == 3 {
            // F-C15: server-mode packet whose NTS authentication fails (was answered with an NTS-NAK)
            FORCE_NONCE.with(|c| c.set(Some(47)));
            let mut m = gen_nts(rng, false, &ctx, id_offset, nkeys);
            FORCE_NONCE.with(|c| c.set(None));
            m[0] = (m[0] & !7) | 4;
            if let Some(l) = m.last_mut() {
                *l ^= 1;
            }
            m
        } else if (malformed || hostile_info) && (k == 0 || rng.chance(1, 6)) {
            // systematic sweep of authenticator shapes: the first request of case `idx` is point `idx % 2050`
            let combo = if k == 0 { idx % 2050 } else { rng.below(2050) };
            gen_auth_shape(rng, combo, &ctx)
        } else if !malformed && k == 0 && idx == 6 {
            // F-C19a: valid NTS NTPv4 request without identifier whose cookie is the ninth authenticated field:
            // the time answer has neither authenticated nor encrypted fields and is sent without authenticator
            FORCE_NONCE.with(|c| c.set(Some(47)));
            FORCE_LEAD.with(|c| c.set(Some(8)));
            let m = gen_nts(rng, false, &ctx, id_offset, nkeys);
            FORCE_LEAD.with(|c| c.set(None));
            FORCE_NONCE.with(|c| c.set(None));
            m
        } else if !malformed && k == 0 && idx == 5 {
            // F-C17d: NTPv5 client header + an (undecryptable) encrypted field, no draft identification: 56 octets,
            // the NTS-NAK answer carries the draft identification and needs 76
            let mut m = vec![0u8; 48];
            m[0] = (5 << 3) | 3;
            m[2] = 6;
            for i in 24..32 {
                m[i] = i as u8;
            }
            m.extend_from_slice(&[0x04, 0x04, 0x00, 0x08, 0, 0, 0, 0]);
            m
        } else if !malformed && k == 0 && idx == 4 {
            // F-C22a: request nonce of 8 octets (tripped a debug assertion in the parser)
            FORCE_NONCE.with(|c| c.set(Some(1)));
            let m = gen_nts(rng, false, &ctx, id_offset, nkeys);
            FORCE_NONCE.with(|c| c.set(None));
            m
        } else {
            let base = match rng.below(10) {
                0 | 1 | 2 => gen_plain_v4(rng),
                3 | 4 => gen_plain_v5(rng),
                5 | 6 | 7 => {
                    sess_used = true;
                    gen_nts(rng, false, &ctx, id_offset, nkeys)
                }
                _ => {
                    sess_used = true;
                    gen_nts(rng, true, &ctx, id_offset, nkeys)
                }
            };
            if malformed {
                match rng.below(5) {
                    0 => rb(rng, 0, 100, 1),
                    1 => {
                        let mut b = rb(rng, 48, 200, 1);
                        b[0] = (b[0] & 0xC0) | ((rng.usize(3, 5) as u8) << 3) | 3;
                        b
                    }
                    _ => {
                        let mut m = base;
                        for _ in 0..rng.usize(1, 3) {
                            m = mutate(rng, m);
                        }
                        m
                    }
                }
            } else if rng.chance(1, 12) {
                mutate(rng, base)
            } else {
                base
            }
        };
        let ip = if rng.chance(1, 3) && prev.is_some() { prev.clone().unwrap() } else { rng.pick(IPS).to_string() };
        prev = Some(ip.clone());
        // receive time: mostly after the variance base time, sometimes slightly before / far after
        let recv = if !malformed && idx == 2 { vbt.wrapping_sub(1 << 32) } else { u64::MAX };
        let recv = if recv != u64::MAX { recv } else { match rng.below(10) {
            0 => vbt.wrapping_sub(rng.below(1 << 34)),
            1 => vbt.wrapping_add(rng.next_u64() >> 8),
            _ => vbt.wrapping_add(rng.below(1 << 44)),
        } };
        let now = recv.wrapping_add(rng.below(1 << 24));
        let buf = if sess_used && !malformed && !(k == 0 && idx <= 6) && rng.chance(1, 4) {
            // NTS: a buffer from the window [natural answer length - 40, natural answer length + 4]: the end of the buffer
            // falls on every octet of the authenticator field — nonce, ciphertext, tag — and just behind it
            format!("nat{:+}", rng.usize(0, 44) as i64 - 40)
        } else { match if !malformed && k == 0 && idx <= 6 { 9 } else { rng.below(10) } {
            0 => "4096".to_string(),
            1 => rng.usize(0, 300).to_string(),
            2 => (msg.len() + 4).to_string(),
            3 => msg.len().saturating_sub(1).to_string(),
            _ => "len".to_string(),
        } };
        let (s2c, c2s, alg) = if sess_used || true {
            (hex(&ctx.sess.s2c), hex(&ctx.sess.c2s), ctx.sess.alg.to_string())
        } else {
            ("-".into(), "-".into(), "0".into())
        };
        let byte_mode = BYTE_MODE.with(|c| c.get());
        let seals = SEALS.with(|v| if v.borrow().is_empty() { "-".to_string() } else { v.borrow().join(",") });
        ops.push(format!(
            "{} ip={} recv={:016x} now={:016x} buf={} s2c={} c2s={} alg={} msg={}{}",
            if byte_mode { "reqb" } else { "req" },
            ip,
            recv,
            now,
            buf,
            s2c,
            c2s,
            alg,
            hex(&msg),
            if byte_mode { format!(" seals={}", seals) } else { String::new() }
        ));
        // the synchronisation state changes between two requests to the SAME server (the daemon's system task
        // writes the shared state while the server task lives on): stratum, leap, reference id, root delay …
        if !malformed && idx > 6 && k + 1 < nreq && rng.chance(1, 2) {
            let (line, nvbt) = gen_cfgsrv(rng, hostile_info);
            vbt = nvbt;
            ops.push(line.replacen("cfgsrv", "updsrv", 1));
        }

    }
    ops
}

#[test]
fn entry() {
    let stream = std::env::var("VERIF_STREAM").unwrap_or_default();
    let kind = stream.split_once('_').map(|x| x.1).unwrap_or("");
    // leak: `drive` wants a 'static name
    let name: &'static str = Box::leak(stream.clone().into_boxed_str());
    match kind {
        "main" => common::drive(
            name,
            "structured requests (plain v3/v4/v5, NTS v4/v5 under real cookies; identifier / cookie / placeholder / nonce / MAC sizes at the decision boundaries) against a real Server with random policy, key set and synchronisation state; each request handled with the stated buffer and (shadow) a 4096-byte buffer; non-trivial = at least one datagram answered; distinct by (version, parse class, statistics, answer size) string",
            |rng, idx, _run| gen_case_with(rng, idx, false, false),
            exec_case,
        ),
        "malformed" => common::drive(
            name,
            "byte-level mutations, truncations, length-field lies and random bytes; same comparison",
            |rng, idx, _run| gen_case_with(rng, idx, true, false),
            exec_case,
        ),
        "hostile" => common::drive(
            name,
            "as main, with synchronisation states outside the representable range (NaN / negative / infinite variance coefficients, negative or oversized root delay): model and implementation must panic for exactly the same requests",
            |rng, idx, _run| gen_case_with(rng, idx, false, true),
            exec_case,
        ),
        "bytes" => {
            BYTE_MODE.with(|c| c.set(true));
            common::drive(
                name,
                "byte mode: as main (one case in four as malformed), but the model side is given the request BYTES and the ideal-AEAD table entries of the encryptions the generator made (cookie under the key-set key, authenticator under c2s); it parses them with the wire parser model, derives the request record with reqOf, cross-checks it with the record the harness derived from the real parser (record-mismatch) and runs handle on its own record",
                |rng, idx, _run| gen_case_with(rng, idx, idx % 4 == 3, false),
                exec_case,
            )
        }
        other => panic!("unknown VERIF_STREAM kind {:?}", other),
    }
}
