//! C05 harness part 2, included into `ntp-proto/src/source.rs` (guarded hook): the private
//! `measurements_from_packet` on really parsed packets.
//!
//! Stream c05_extract: a 48-byte NTPv3/v4 server packet carrying the given receive / transmit
//! timestamps is parsed with the crate's parser and handed to `measurements_from_packet` together with
//! the local send / receive times.  Observation: both `Measurement`s (direction + timestamps).
#![allow(clippy::all, clippy::pedantic)]

#[path = "../common/mod.rs"]
mod common;

use super::super::*;
use crate::packet::NoCipher;
use common::{kv, Rng, Run};

fn gen_ts(rng: &mut Rng) -> u64 {
    match rng.below(8) {
        0 => 0,
        1 => u64::MAX,
        2 => 1u64 << 63,
        3 => (1u64 << 63) - 1,
        4 => rng.below(5),
        5 => u64::MAX - rng.below(5),
        _ => rng.next_u64(),
    }
}

fn gen_case(rng: &mut Rng, _idx: u64, _run: &Run) -> Vec<String> {
    let v = if rng.chance(1, 4) { 3 } else { 4 };
    vec![format!(
        "pkt v={} send={} rts={} tts={} recv={} id={}",
        v,
        gen_ts(rng),
        gen_ts(rng),
        gen_ts(rng),
        gen_ts(rng),
        1 + rng.below(1000)
    )]
}

fn show(m: &Measurement) -> String {
    format!(
        "sys={} s={} r={}",
        (m.sender_id == ClockId::SYSTEM) as u8,
        u64::from_be_bytes(m.sender_ts.to_bits()),
        u64::from_be_bytes(m.receiver_ts.to_bits())
    )
}

fn exec_case(ops: &[String], run: &mut Run) {
    for op in ops {
        run.begin_op(op);
        let w: Vec<&str> = op.split_whitespace().collect();
        let num = |k: &str| -> Option<u64> { kv(&w, k).and_then(|v| v.parse().ok()) };
        let (Some(v), Some(send), Some(rts), Some(tts), Some(recv)) =
            (num("v"), num("send"), num("rts"), num("tts"), num("recv"))
        else {
            run.end_op("bad-op");
            continue;
        };
        let id = ClockId(num("id").unwrap_or(1).max(1));
        let mut data = [0u8; 48];
        data[0] = ((v as u8 & 7) << 3) | 4; // LI 0, version, mode 4 (server)
        data[1] = 2; // stratum
        data[2] = 6; // poll
        data[3] = 0xec; // precision
        data[16..24].copy_from_slice(&0x0102_0304_0506_0708u64.to_be_bytes()); // reference ts
        data[24..32].copy_from_slice(&send.to_be_bytes()); // origin ts
        data[32..40].copy_from_slice(&rts.to_be_bytes()); // receive ts
        data[40..48].copy_from_slice(&tts.to_be_bytes()); // transmit ts
        let packet = match NtpPacket::deserialize(&data, &NoCipher) {
            Ok((p, _)) => p,
            Err(_) => {
                run.hit("parse-error");
                run.end_op("err:parse");
                continue;
            }
        };
        let (out, inc) = measurements_from_packet(
            &packet,
            id,
            NtpTimestamp::from_fixed_int(send),
            NtpTimestamp::from_fixed_int(recv),
        );
        // oracle: T1 = client send, T2 = server receive, T3 = server transmit, T4 = client receive
        let b = |t: NtpTimestamp| u64::from_be_bytes(t.to_bits());
        if !(out.sender_id == ClockId::SYSTEM && b(out.sender_ts) == send && b(out.receiver_ts) == rts) {
            run.oracle_fail("extraction", "", &format!("outgoing measurement {} but T1={} T2={}", show(&out), send, rts));
        }
        if !(inc.sender_id == id && id != ClockId::SYSTEM && b(inc.sender_ts) == tts && b(inc.receiver_ts) == recv) {
            run.oracle_fail("extraction", "", &format!("incoming measurement {} but T3={} T4={}", show(&inc), tts, recv));
        }
        run.hit(if v == 3 { "v3" } else { "v4" });
        run.nontrivial(op);
        run.end_op(&format!("out {} in {}", show(&out), show(&inc)));
    }
}

#[test]
fn entry() {
    let stream = std::env::var("VERIF_STREAM").unwrap_or_default();
    match stream.as_str() {
        "c05_extract" => common::drive(
            "c05_extract",
            "48-byte NTPv3/v4 server packets with boundary/random receive and transmit timestamps parsed by NtpPacket::deserialize and passed to measurements_from_packet with boundary/random send/receive times; every case non-trivial; distinct by op text",
            gen_case,
            exec_case,
        ),
        other => panic!("unknown VERIF_STREAM {:?}", other),
    }
}
