//! verification harness module included into `ntp-proto/src/source.rs` (guarded hook), cluster `srcsm`:
//! the NtpSource state machine (C07, C08, C09, C10, C11, C12, C14, C33).
//!
//! A REAL `NtpSource` (built with `NtpSource::new`) with a recording controller runs on a paused
//! single-threaded tokio runtime.  Op lines:
//!   cfg min= max= nts= proto= lstrat= lids= sid= bloom= [stash=L:C] [reach=] [tries=] [strat=] [rmin=]
//!   timer dt=<ns> des=<i8>                 (+ read back: now= org= uid= tns=)
//!   incoming dt=<ns> sts= rcv= d.*=…       (+ read back: now= p=ok|err <abstract record> ba=)
//!   accept st= sid= bl= reach= lstrat= lids=      (unit call of accept_synchronization, stream c33_accept)
//! `d.*` is a *relative* description of the datagram (origin match/prev/…, uid placement, cipher, kiss code,
//! mutations), resolved against the request the source sent, built with the crate's own packet types and
//! serialiser (bridge in packet_dump.rs), then parsed by the REAL `NtpPacket::deserialize` under the source's
//! s2c cipher; the abstract record of that parse is what the model receives.
//!
//! Streams: sm_c08 sm_c11 sm_c12 sm_c09 sm_c10 sm_c07 sm_c33 (same script generator, property-specific bias and
//! oracle), c07_witness, c14_exh (exhaustive), c33_accept.
#![allow(clippy::all, clippy::pedantic)]

#[path = "../common/mod.rs"]
mod common;

use super::super::*;
use crate::cookiestash::CookieStash;
use crate::packet::{AesSivCmac256, Cipher, NoCipher};
use common::{hex, kv, unhex, Rng, Run};
use std::collections::{BTreeMap, VecDeque};
use std::net::Ipv4Addr;

struct RecController {
    poll: PollInterval,
    measurements: Vec<Measurement>,
    usable: Vec<bool>,
    /// the calls in the order the source made them: `u` = set_usable, `m` = handle_measurement
    calls: Vec<u8>,
}

impl SourceController for RecController {
    fn handle_measurement(&mut self, m: Measurement) {
        self.measurements.push(m);
        self.calls.push(b'm');
    }
    fn set_usable(&mut self, usable: bool) {
        self.usable.push(usable);
        self.calls.push(b'u');
    }
    fn desired_poll_interval(&self) -> PollInterval {
        self.poll
    }
    fn observe(&self) -> crate::ObservableSourceTimedata {
        crate::ObservableSourceTimedata::default()
    }
}

const KEY_C2S: [u8; 32] = [7; 32];
const KEY_S2C: [u8; 32] = [9; 32];
const KEY_OTHER: [u8; 32] = [3; 32];

/// a cipher that performs the real AES-SIV encryption and records the sealing (nonce, associated data, ciphertext,
/// plaintext) — the entries of the ideal-AEAD table handed to the model in byte mode (stream `sm_bytes`)
struct RecCipher {
    inner: AesSivCmac256,
    key: [u8; 32],
    log: std::sync::Mutex<Vec<String>>,
}

impl zeroize::ZeroizeOnDrop for RecCipher {}

impl RecCipher {
    fn new(key: [u8; 32]) -> Self {
        RecCipher { inner: AesSivCmac256::new(key.into()), key, log: std::sync::Mutex::new(vec![]) }
    }
}

impl Cipher for RecCipher {
    fn encrypt(&self, buffer: &mut [u8], plaintext_length: usize, associated_data: &[u8]) -> std::io::Result<crate::packet::EncryptResult> {
        let pt = buffer[..plaintext_length].to_vec();
        let r = self.inner.encrypt(buffer, plaintext_length, associated_data)?;
        let nonce = &buffer[..r.nonce_length];
        let ct = &buffer[r.nonce_length..r.nonce_length + r.ciphertext_length];
        let h = |b: &[u8]| if b.is_empty() { "-".to_string() } else { hex(b) };
        self.log.lock().unwrap().push(format!("{};{};{};{};{}", h(&self.key), h(nonce), h(associated_data), h(ct), h(&pt)));
        Ok(r)
    }
    fn decrypt(&self, nonce: &[u8], ciphertext: &[u8], associated_data: &[u8]) -> Result<Vec<u8>, crate::packet::DecryptError> {
        self.inner.decrypt(nonce, ciphertext, associated_data)
    }
    fn key_bytes(&self) -> &[u8] {
        &self.key
    }
}


fn cfg_cookie(len: usize, i: usize) -> Vec<u8> {
    vec![(i + 1) as u8; len]
}

fn proto_of(s: &str) -> ProtocolVersion {
    let parts: Vec<&str> = s.split(':').collect();
    match parts.as_slice() {
        ["v4"] => ProtocolVersion::V4,
        ["v5"] => ProtocolVersion::V5,
        ["upd"] => ProtocolVersion::UpgradedToV5,
        ["up", n] => ProtocolVersion::V4UpgradingToV5 { tries_left: n.parse().expect("tries") },
        _ => panic!("bad proto {}", s),
    }
}

fn proto_str(p: ProtocolVersion) -> String {
    match p {
        ProtocolVersion::V4 => "v4".into(),
        ProtocolVersion::V5 => "v5".into(),
        ProtocolVersion::UpgradedToV5 => "upd".into(),
        ProtocolVersion::V4UpgradingToV5 { tries_left } => format!("up:{}", tries_left),
    }
}

fn refid_u32(r: ReferenceId) -> u32 {
    u32::from_be_bytes(r.to_bytes())
}

fn ts_hex(t: NtpTimestamp) -> String {
    format!("{:016x}", u64::from_be_bytes(t.to_bits()))
}

fn durkey(d: crate::NtpDuration) -> String {
    d.to_seconds().to_bits().to_string()
}

fn leapnum(l: crate::NtpLeapIndicator) -> u8 {
    match l {
        crate::NtpLeapIndicator::NoWarning => 0,
        crate::NtpLeapIndicator::Leap61 => 1,
        crate::NtpLeapIndicator::Leap59 => 2,
        crate::NtpLeapIndicator::Unknown => 3,
        crate::NtpLeapIndicator::Unsynchronized => 4,
    }
}

/// the request a source sent, read back from the bytes it emitted
#[derive(Clone, Debug, Default)]
struct Sent {
    version: u8,
    poll: u8,
    origin: u64,
    upg: bool,
    uid: Option<Vec<u8>>,
    cookie_body: Option<Vec<u8>>,
    ncookies: usize,
    nplace: usize,
    rr_off: Option<u16>,
    len: usize,
    at_ns: u128,
}

fn parse_sent(buf: &[u8]) -> Sent {
    let version = (buf[0] >> 3) & 7;
    let mut s = Sent { version, poll: buf[2], len: buf.len(), ..Default::default() };
    if version == 5 {
        s.origin = u64::from_be_bytes(buf[24..32].try_into().unwrap());
    } else {
        s.origin = u64::from_be_bytes(buf[40..48].try_into().unwrap());
        s.upg = &buf[16..24] == b"NTP5DRFT";
    }
    let mut off = 48;
    while off + 4 <= buf.len() {
        let ty = u16::from_be_bytes([buf[off], buf[off + 1]]);
        let len = u16::from_be_bytes([buf[off + 2], buf[off + 3]]) as usize;
        if len < 4 || off + len > buf.len() {
            break;
        }
        let body = &buf[off + 4..off + len];
        match ty {
            0x0104 => s.uid = Some(body.to_vec()),
            0x0204 => {
                s.ncookies += 1;
                if s.cookie_body.is_none() {
                    s.cookie_body = Some(body.to_vec());
                }
            }
            0x0304 => s.nplace += 1,
            0xF503 => s.rr_off = Some(u16::from_be_bytes([body[0], body[1]])),
            0x0404 => break,
            _ => {}
        }
        off += (len + 3) & !3;
    }
    s
}

struct World {
    source: NtpSource<RecController>,
    server_id: ServerId,
    nts: bool,
    limits: (i8, i8),
    start: tokio::time::Instant,
    cur: Option<Sent>,
    prev: Option<Sent>,
    last_bytes: Vec<u8>,
    target_filter: BloomFilter,
    /// manager mode (`cfg … mgr=1`): the source was created through a real `NtpManager`; this is the Bloom filter the
    /// manager ADVERTISES with no used sources, i.e. exactly the bits of the daemon's advertised server id
    adv_filter: Option<BloomFilter>,
    reference: VecDeque<Vec<u8>>,
    cookie_tag: u32,
    bytes_mode: bool,
    last_seal: Option<String>,
    sent_cookies: Vec<Vec<u8>>,
    // bookkeeping for the oracles
    meas_since_send: usize,
    /// C12 bookkeeping: a v5 answer matching an outstanding v5 request was delivered (automatic-mode source)
    v5_match_seen: bool,
    /// largest interval of a poll that was answered by a valid RATE (harness bookkeeping)
    rate_floor: Option<i8>,
    /// the last flag handed to the controller by set_usable
    last_usable_flag: Option<bool>,
    /// datagrams since the last request that were not accepted (forged, NAK, stale, …)
    junk_since_send: usize,
    sends: usize,
    polls_since_usable: usize,
    usable_answers: usize,
    max_asked: i8,
    deny_marked: bool,
    /// the harness' own bookkeeping: a valid unauthenticated DENY/RSTR answer was seen since the last usable answer
    deny_seen: bool,
    /// the last datagram was produced by a real s2c sealing of this harness (persisting over replays)
    last_s2c_sealed: bool,
    init_proto: ProtocolVersion,
    nonup_valid: usize,
    marker_seen: bool,
}

/// does `f` contain this daemon's id? — in manager mode "the id" is the one the manager advertises (all its bits set
/// in `f`), independently of the id the manager handed to the source
fn contains_own(server_id: &ServerId, adv: &Option<BloomFilter>, f: &BloomFilter) -> bool {
    match adv {
        Some(a) => a.as_bytes().iter().zip(f.as_bytes().iter()).all(|(x, y)| x & y == *x),
        None => f.contains_id(server_id),
    }
}

fn pick_server_id() -> (ServerId, BloomFilter) {
    loop {
        let id = ServerId::default();
        let mut f = BloomFilter::new();
        f.add_id(&id);
        if f.as_bytes()[..16].iter().any(|b| *b != 0) {
            return (id, f);
        }
    }
}

fn new_world(w: &[&str]) -> World {
    let num = |k: &str| -> i64 { kv(w, k).unwrap_or_else(|| panic!("cfg missing {}", k)).parse().expect("cfg num") };
    let limits = (num("min") as i8, num("max") as i8);
    let nts = num("nts") != 0;
    let proto = proto_of(kv(w, "proto").expect("proto"));
    let lids: Vec<u32> = match kv(w, "lids").expect("lids") {
        "-" => vec![],
        s => s.split(',').map(|x| x.parse().expect("lid")).collect(),
    };
    let sid = num("sid") as u32;
    let mgr_mode = kv(w, "mgr") == Some("1");
    let (server_id, mut target_filter) = pick_server_id();
    let source_info = Arc::new(RwLock::new(NtpSourceInfo {
        ip_list: lids.iter().map(|x| IpAddr::V4(Ipv4Addr::from(*x))).collect::<Vec<_>>().into(),
        server_id,
        local_stratum: num("lstrat") as u8,
    }));
    let ntsdata = if nts {
        let mut cookies = CookieStash::default();
        if let Some(st) = kv(w, "stash") {
            let (l, c) = st.split_once(':').expect("stash");
            let (l, c): (usize, usize) = (l.parse().unwrap(), c.parse().unwrap());
            for i in 0..c {
                cookies.store(cfg_cookie(l, i));
            }
        }
        Some(Box::new(SourceNtsData {
            cookies,
            c2s: Box::new(AesSivCmac256::new(KEY_C2S.into())),
            s2c: Box::new(AesSivCmac256::new(KEY_S2C.into())),
        }))
    } else {
        None
    };
    let config = SourceConfig {
        poll_interval_limits: crate::time_types::PollIntervalLimits {
            min: PollInterval::from_byte(limits.0 as u8),
            max: PollInterval::from_byte(limits.1 as u8),
        },
        initial_poll_interval: PollInterval::from_byte(limits.0 as u8),
    };
    let controller = RecController { poll: config.poll_interval_limits.min, measurements: vec![], usable: vec![], calls: vec![] };
    let mut adv_filter = None;
    let (mut source, _init_actions) = if mgr_mode {
        // the real wiring: an `NtpManager` (several are tried until the advertised id has a bit in chunk 0, so that
        // one chunk-0 answer can complete a peer's filter) creates the source through its own API
        let mut sync = crate::config::SynchronizationConfig::default();
        sync.local_stratum = num("lstrat") as u8;
        let ip_list: Arc<[IpAddr]> = lids.iter().map(|x| IpAddr::V4(Ipv4Addr::from(*x))).collect::<Vec<_>>().into();
        let mgr = loop {
            let m = crate::system::NtpManager::new(sync, ip_list.clone());
            let adv = m.update_used_sources(std::iter::empty()).bloom_filter;
            if adv.as_bytes()[..16].iter().any(|b| *b != 0) {
                target_filter = adv;
                adv_filter = Some(adv);
                break m;
            }
        };
        mgr.new_source(SocketAddr::new(IpAddr::V4(Ipv4Addr::from(sid)), 123), config, proto, controller, ntsdata, ClockId(1))
    } else {
        NtpSource::new(
            SocketAddr::new(IpAddr::V4(Ipv4Addr::from(sid)), 123),
            config,
            proto,
            controller,
            ntsdata,
            ClockId(1),
            source_info,
            Arc::default(),
        )
    };
    // remote Bloom filter pre-filled through its public API: `1` = contains this daemon's id, `0` = the same
    // filter with chunk 0 blanked (one matching chunk-0 answer makes it contain the id)
    match kv(w, "bloom").expect("bloom") {
        "none" => {}
        b => {
            let mut f = target_filter;
            if b == "0" {
                let mut bytes = *f.as_bytes();
                bytes[..16].fill(0);
                f = BloomFilter::new();
                // rebuild through chunks below
                let ck = crate::packet::v5::NtpClientCookie([1; 8]);
                for i in 0..32 {
                    let _ = source.bloom_filter.next_request(ck);
                    let resp = crate::packet::v5::extension_fields::ReferenceIdResponse::new(&bytes[i * 16..(i + 1) * 16]).unwrap();
                    source.bloom_filter.handle_response(ck, &resp).expect("prefill");
                }
                let _ = f;
            } else {
                let bytes = *f.as_bytes();
                let ck = crate::packet::v5::NtpClientCookie([1; 8]);
                for i in 0..32 {
                    let _ = source.bloom_filter.next_request(ck);
                    let resp = crate::packet::v5::extension_fields::ReferenceIdResponse::new(&bytes[i * 16..(i + 1) * 16]).unwrap();
                    source.bloom_filter.handle_response(ck, &resp).expect("prefill");
                }
            }
        }
    }
    if let Some(v) = kv(w, "reach") {
        source.reach = Reach(v.parse().unwrap());
    }
    if let Some(v) = kv(w, "tries") {
        source.tries = v.parse().unwrap();
    }
    if let Some(v) = kv(w, "strat") {
        source.stratum = v.parse().unwrap();
    }
    if let Some(v) = kv(w, "rmin") {
        source.remote_min_poll_interval = PollInterval::from_byte(v.parse::<i64>().unwrap() as i8 as u8);
    }
    let mut reference = VecDeque::new();
    if nts {
        if let Some(st) = kv(w, "stash") {
            let (l, c) = st.split_once(':').unwrap();
            let (l, c): (usize, usize) = (l.parse().unwrap(), c.parse().unwrap());
            for i in 0..c {
                reference.push_back(cfg_cookie(l, i));
                if reference.len() > 8 {
                    reference.pop_front();
                }
            }
        }
    }
    World {
        source,
        server_id,
        nts,
        limits,
        start: tokio::time::Instant::now(),
        cur: None,
        prev: None,
        last_bytes: vec![],
        target_filter,
        adv_filter,
        reference,
        cookie_tag: 0,
        bytes_mode: false,
        last_seal: None,
        sent_cookies: vec![],
        meas_since_send: 0,
        v5_match_seen: false,
        rate_floor: None,
        last_usable_flag: None,
        junk_since_send: 0,
        sends: 0,
        polls_since_usable: 0,
        usable_answers: 0,
        max_asked: i8::MIN,
        deny_marked: false,
        deny_seen: false,
        last_s2c_sealed: false,
        init_proto: proto,
        nonup_valid: 0,
        marker_seen: false,
    }
}

fn state_str(w: &World) -> String {
    let snap = NtpSourceSnapshot::from_source(&w.source);
    let obs = w.source.observe("x".into(), ClockId(1));
    let ck = match obs.nts_cookies {
        None => "-".to_string(),
        Some(n) => n.to_string(),
    };
    let bl = match snap.bloom_filter {
        None => "none".to_string(),
        Some(f) => (contains_own(&w.server_id, &w.adv_filter, &f) as u8).to_string(),
    };
    format!(
        " | reach={} unans={} lp={} ck={} proto={} strat={} rid={} bl={}",
        snap.reach.0,
        obs.unanswered_polls,
        obs.poll_interval.as_log(),
        ck,
        proto_str(snap.protocol_version),
        snap.stratum,
        refid_u32(snap.reference_id),
        bl
    )
}

fn now_ns(w: &World) -> u128 {
    (tokio::time::Instant::now() - w.start).as_nanos()
}

/// which property's oracle (and generator bias) a stream uses
#[derive(Clone, Copy, PartialEq, Eq, Debug)]
enum Prop {
    /// generator of C33, oracle: only the order of the controller calls (C03)
    C03,
    C13,
    C07,
    C08,
    C09,
    C10,
    C11,
    C12,
    C14,
    C33,
}

fn expected_versions(p: ProtocolVersion) -> &'static [u8] {
    match p {
        ProtocolVersion::V4 => &[3, 4],
        ProtocolVersion::V4UpgradingToV5 { .. } => &[4],
        ProtocolVersion::UpgradedToV5 | ProtocolVersion::V5 => &[5],
    }
}

/// C11: the reported number of missed polls equals the polls since the last usable answer (at most 8; 8 when
/// there never was one) — plain sources
fn oracle_missed_polls(wd: &World, run: &mut Run, prop: Prop) {
    if prop != Prop::C11 || wd.nts {
        return;
    }
    let reported = wd.source.observe("x".into(), ClockId(1)).unanswered_polls as usize;
    let want = if wd.usable_answers == 0 { 8 } else { wd.polls_since_usable.min(8) };
    if reported != want {
        run.oracle_fail("missed_polls_is_history", &format!("reported={} polls_since={}", reported, want), "unanswered_polls differs from the polls since the last usable answer");
    }
}

fn exec_timer(wd: &mut World, w: &[&str], run: &mut Run, prop: Prop, key: &mut String) {
    let des: i64 = kv(w, "des").expect("des").parse().expect("des");
    wd.source.controller.poll = PollInterval::from_byte(des as i8 as u8);
    let now = now_ns(wd);
    let usable_before = wd.source.controller.usable.len();
    let snap_before = NtpSourceSnapshot::from_source(&wd.source);
    let tries_before = wd.source.tries;
    let remote_before = wd.source.remote_min_poll_interval.as_log();
    let had_cookies = wd.source.nts.as_ref().map(|n| n.cookies.len());
    let actions: Vec<NtpSourceAction> = wd.source.handle_timer().collect();
    let mut out = String::new();
    let mut org = 0u64;
    let mut uid: Vec<u8> = vec![];
    let mut tns: u128 = 0;
    let mut sent: Option<Sent> = None;
    for a in &actions {
        match a {
            NtpSourceAction::Reset => out = "reset".into(),
            NtpSourceAction::Demobilize => out = "demobilize".into(),
            NtpSourceAction::Send(buf) => {
                let mut s = parse_sent(buf);
                s.at_ns = now;
                sent = Some(s);
            }
            NtpSourceAction::SetTimer(d) => tns = d.as_nanos(),
        }
    }
    // the NTS branch pops the oldest cookie whenever it gets past the reachability test
    let past_reach_test = !(out == "reset" || out == "demobilize") || wd.source.tries != tries_before;
    let oldest = if wd.nts && past_reach_test { wd.reference.pop_front() } else { None };
    if let Some(s) = &sent {
        org = s.origin;
        uid = s.uid.clone().unwrap_or_default();
        let ck = match (&s.cookie_body, &oldest) {
            (Some(body), Some(want)) if body.len() >= want.len() => hex(&body[..want.len()]),
            (Some(body), _) => format!("body:{}", hex(body)),
            (None, _) => "none".to_string(),
        };
        let n = s.ncookies + s.nplace;
        let usable = wd.source.controller.usable.get(usable_before).copied();
        if let Some(b) = usable {
            wd.last_usable_flag = Some(b);
        }
        let us = match usable {
            Some(b) if wd.source.controller.usable.len() == usable_before + 1 => (b as u8).to_string(),
            _ => "missing".to_string(),
        };
        out = format!("send v={} poll={} upg={} ck={} n={} len={} us={} jit=1", s.version, s.poll, s.upg as u8, ck, n, s.len, us);
        run.hit(&format!("timer-send-v{}{}", s.version, if s.upg { "-upg" } else { "" }));
        key.push_str(&format!("S{}p{}", s.version, s.poll));
        // ---- oracles on the implementation alone
        if matches!(prop, Prop::C33 | Prop::C11) && !wd.nts {
            // (plain sources: every poll is a request sent; an NTS source also shifts its register when it resets for lack
            // of a usable cookie)
            // the harness' own reach register: an answer was accepted within the last 8 polls, this one included
            let k = wd.polls_since_usable + 1;
            let own_reachable = wd.usable_answers > 0 && k <= 7;
            match usable {
                Some(true) if !own_reachable => run.oracle_fail("usable_iff_accept", &format!("polls_since_answer={} answers={}", k, wd.usable_answers),
                    "set_usable(true) at a poll although no answer was accepted within the last eight polls (unreachable sources are never used)"),
                Some(false) if own_reachable => {
                    // legitimate only if another clause forbids use
                    let si = wd.source.source_info.read().unwrap();
                    let snap = NtpSourceSnapshot::from_source(&wd.source);
                    let local_ids: Vec<u32> = si.ip_list.iter().map(|ip| refid_u32(ReferenceId::from_ip(*ip))).collect();
                    let other = snap.stratum >= si.local_stratum
                        || (snap.stratum != 1 && local_ids.contains(&refid_u32(snap.source_id)))
                        || snap.bloom_filter.map(|f| contains_own(&wd.server_id, &wd.adv_filter, &f)).unwrap_or(false);
                    if !other {
                        run.oracle_fail("usable_iff_accept", &format!("polls_since_answer={} usable=0", k), "set_usable(false) for a reachable source that no clause excludes");
                    }
                }
                _ => {}
            }
            run.hit(if own_reachable { "timer-own-reach-nonzero" } else if wd.usable_answers > 0 { "timer-own-reach-shifted-out" } else { "timer-never-answered" });
        }
        let poll = s.poll as i8;
        let interval_ns: u128 = (1u128 << (poll.clamp(0, 31) as u32)) * 1_000_000_000;
        if prop == Prop::C10 {
            let hi = wd.limits.1.max(wd.max_asked);
            if poll < wd.limits.0 || poll > hi {
                run.oracle_fail("send_poll_bounds", &format!("poll={} min={} max={} asked={}", poll, wd.limits.0, wd.limits.1, wd.max_asked),
                    "poll exponent of a sent request outside [configured min, max(configured max, server-requested)] (desired interval was within the limits)");
            }
            if !(101 * interval_ns <= 100 * tns && 100 * tns <= 105 * interval_ns) {
                run.oracle_fail("timer_jitter", &format!("poll={} tns={}", poll, tns), "next poll not scheduled within [1.01, 1.05] x interval");
            }
        }
        if matches!(prop, Prop::C09 | Prop::C10) {
            // harness bookkeeping: a valid RATE answered a poll sent with interval L  =>  every later poll >= L
            if let Some(floor) = wd.rate_floor {
                if poll < floor {
                    run.oracle_fail("c09_rate_not_faster", &format!("poll={} rate_answered_poll={}", poll, floor),
                        "after a valid RATE answer the source polls faster than the poll that RATE answered");
                }
                run.hit("poll-after-valid-rate");
            }
        }
        if prop == Prop::C09 {
            // never faster than before a RATE answer
            if poll < remote_before {
                run.oracle_fail("rate_never_faster", &format!("poll={} remote_min={}", poll, remote_before), "request polls faster than the interval the server asked for");
            }
        }
        if prop == Prop::C12 && wd.v5_match_seen {
            if s.version != 5 {
                run.oracle_fail("c12_fallback_only_before_first_match", &format!("sent_version={} upg={}", s.version, s.upg as u8),
                    "an automatic-mode source fell back to NTPv4 although a matching NTPv5 answer had already been received after the upgrade");
            }
            run.hit("c12-poll-after-v5-match");
        }
        if prop == Prop::C12 {
            let want: (u8, bool) = match (wd.nts, snap_before.protocol_version, wd.source.protocol_version) {
                (_, _, ProtocolVersion::V4) => (4, false),
                (false, _, ProtocolVersion::V4UpgradingToV5 { .. }) => (4, true),
                (true, _, ProtocolVersion::V4UpgradingToV5 { .. }) => (5, false),
                (_, _, ProtocolVersion::UpgradedToV5) | (_, _, ProtocolVersion::V5) => (5, false),
            };
            if (s.version, s.upg) != want {
                run.oracle_fail("sent_version", &format!("v={} upg={}", s.version, s.upg as u8), "version / upgrade marker of the request does not follow the protocol state");
            }
            match wd.init_proto {
                ProtocolVersion::V4 if s.version != 4 || s.upg => run.oracle_fail("forced_stable", "cfg=v4", "a source configured for NTPv4 sent something else"),
                ProtocolVersion::V5 if s.version != 5 => run.oracle_fail("forced_stable", "cfg=v5", "a source configured for NTPv5 sent something else"),
                _ => {}
            }
        }
        if prop == Prop::C13 {
            // C13's clauses evaluated on the implementation alone, against the ideal bounded queue `reference`
            // (push at the back, drop the front beyond eight, pop at the front)
            let n = s.ncookies + s.nplace;
            match (&s.cookie_body, &oldest) {
                (Some(body), Some(want)) => {
                    if !(body.len() >= want.len() && body[..want.len()] == want[..] && body[want.len()..].iter().all(|b| *b == 0)) {
                        let newer = wd.reference.iter().any(|c| body.len() >= c.len() && body[..c.len()] == c[..]);
                        run.oracle_fail(if newer { "oldest_first" } else { "keeps_newest_eight" }, &format!("held_after={}", wd.reference.len()),
                            "the cookie sent is not the oldest of the newest eight cookies received and not yet used");
                    }
                    if wd.sent_cookies.contains(body) {
                        run.oracle_fail("each_cookie_sent_once", "", "a cookie was sent a second time");
                    }
                    wd.sent_cookies.push(body.clone());
                    let missing = 8 - wd.reference.len();
                    let limit = 724 / want.len().max(1);
                    if n != missing.min(limit) || s.ncookies != 1 {
                        run.oracle_fail("request_asks_gap", &format!("asked={} missing={} size_limit={}", n, missing, limit),
                            "the request does not ask for exactly the missing number of cookies (or the size-limited number)");
                    }
                    run.hit(if missing <= limit { "c13-asks-missing" } else { "c13-size-limited" });
                }
                (Some(_), None) => run.oracle_fail("used_once_in_order", "held=0", "a cookie was sent although none should be held"),
                (None, _) => run.oracle_fail("used_once_in_order", "cookie=none", "NTS request without a cookie"),
            }
        }
        if prop == Prop::C14 && s.len > 1024 {
            run.oracle_fail("fits_buffer", &format!("len={}", s.len), "request larger than the send buffer");
        }
        wd.prev = wd.cur.take();
        wd.cur = sent.clone();
        wd.meas_since_send = 0;
        wd.junk_since_send = 0;
        wd.sends += 1;
        wd.polls_since_usable += 1;
    } else if out.is_empty() {
        out = "none".into();
    }
    if prop == Prop::C13 && (out == "reset" || out == "demobilize") && past_reach_test {
        // got past the reachability test and still no request: only without a cookie, or when it is too long
        match &oldest {
            None => run.hit("c13-reset-no-cookie"),
            Some(c) if 724 / c.len().max(1) == 0 => run.hit("c13-reset-oversize"),
            Some(_) => run.oracle_fail("request_asks_gap", "reset=1", "reset although a cookie of usable size was held"),
        }
    }
    if prop == Prop::C13 {
        let held = wd.source.observe("x".into(), ClockId(1)).nts_cookies;
        if held != Some(wd.reference.len()) {
            run.oracle_fail("keeps_newest_eight", &format!("held={:?} want={}", held, wd.reference.len()), "number of cookies held differs from min(8, received and not yet used)");
        }
    }
    if out == "reset" || out == "demobilize" {
        run.hit(&format!("timer-{}", out));
        key.push_str(if out == "reset" { "R" } else { "D" });
        if prop == Prop::C09 && !wd.nts && snap_before.reach.0 == 0 && tries_before >= 3 {
            // C09: "... only marks an unauthenticated source, which is demobilised solely if it also stays unreachable"
            if (out == "demobilize") != wd.deny_seen {
                run.oracle_fail("demobilised_iff_deny_seen", &format!("deny_seen={} action={}", wd.deny_seen as u8, out),
                    "unreachable source: Demobilize must be returned exactly when a valid unauthenticated DENY/RSTR answer was seen since the last accepted answer (else Reset)");
            }
            run.hit(if wd.deny_seen { "c09-unreachable-deny-seen" } else { "c09-unreachable-no-deny" });
        }
        if prop == Prop::C11 {
            let unreachable = snap_before.reach.0 == 0 && tries_before >= 3;
            let nts_no_cookie = wd.nts && (had_cookies == Some(0) || oldest.as_ref().map(|c| c.len() > 724).unwrap_or(false));
            if !unreachable && !nts_no_cookie {
                run.oracle_fail("responsive_never_reset", &format!("reach={} tries={}", snap_before.reach.0, tries_before), "reset/demobilise of a source that is reachable or still in its first three polls");
            }
            if unreachable && (out == "demobilize") != wd.deny_marked {
                run.oracle_fail("reset_when_unreachable", &format!("deny={}", wd.deny_marked as u8), "reset vs demobilise does not follow the deny mark");
            }
            // the property's own clause: "... or demobilised if an unauthenticated deny was seen since its last usable
            // answer" — from the harness' bookkeeping of the traffic, not from the source's flag
            if unreachable && !wd.nts && (out == "demobilize") != wd.deny_seen {
                run.oracle_fail("demobilised_iff_deny_seen", &format!("deny_seen={} action={}", wd.deny_seen as u8, out),
                    "unreachable source: Demobilize must be returned exactly when a valid unauthenticated DENY/RSTR answer was seen since the last usable answer (else Reset)");
            }
            if unreachable && !wd.nts {
                run.hit(if wd.deny_seen { "c11-unreachable-deny-seen" } else { "c11-unreachable-no-deny" });
            }
        }
    }
    if prop == Prop::C11 {
        // the property's own count: polls since the last usable answer
        let no_answer_3 = wd.usable_answers == 0 && wd.sends >= 3;
        let no_answer_8 = wd.polls_since_usable >= 8 && wd.sends >= 8;
        if (no_answer_3 || no_answer_8) && sent.is_some() && tries_before >= 3 && snap_before.reach.0 == 0 {
            run.oracle_fail("reset_when_unreachable", "", "an unreachable source sent another request");
        }
    }
    oracle_missed_polls(wd, run, prop);
    let op = format!("timer dt={} des={} now={} org={:016x} uid={} tns={}", kv(w, "dt").unwrap_or("0"), des, now, org, hex(&uid), tns);
    let st = state_str(wd);
    run.end_op_as(&op, &format!("{}{}", out, st));
}

fn resolve_ef_list(wd: &mut World, s: &str) -> String {
    if s == "-" {
        return "-".into();
    }
    let cur_uid = wd.cur.as_ref().and_then(|c| c.uid.clone()).unwrap_or_else(|| vec![0u8; 32]);
    let prev_uid = wd.prev.as_ref().and_then(|c| c.uid.clone()).unwrap_or_else(|| vec![1u8; 32]);
    let hx = |b: &[u8]| -> String { if b.is_empty() { "e".into() } else { b.iter().map(|x| format!("{:02x}", x)).collect() } };
    let mut out = vec![];
    for item in s.split(',') {
        let parts: Vec<&str> = item.split(':').collect();
        let r = match parts.as_slice() {
            ["uid", "match"] => format!("uid:{}", hx(&cur_uid)),
            ["uid", "prev"] => format!("uid:{}", hx(&prev_uid)),
            ["uid", "wrong"] => {
                let mut u = cur_uid.clone();
                let l = u.len();
                u[l - 1] ^= 0x40;
                format!("uid:{}", hx(&u))
            }
            ["uid", "short"] => format!("uid:{}", hx(&cur_uid[..16.min(cur_uid.len())])),
            ["uid", "long"] => {
                let mut u = cur_uid.clone();
                u.extend_from_slice(&[0xaa, 0xbb, 0xcc, 0xdd]);
                format!("uid:{}", hx(&u))
            }
            ["ck", len] => {
                // unique content so that "which cookie was used" is observable later
                let len: usize = len.parse().expect("ck len");
                wd.cookie_tag += 1;
                let mut c = vec![0xc0u8; len];
                for (i, b) in wd.cookie_tag.to_be_bytes().iter().enumerate() {
                    if i < c.len() {
                        c[i] = *b;
                    }
                }
                format!("ck:{}", hx(&c))
            }
            ["rr", which] => {
                let off = wd.cur.as_ref().and_then(|c| c.rr_off).unwrap_or(0) as usize;
                let chunk: Vec<u8> = match *which {
                    "one" => wd.target_filter.as_bytes()[off..off + 16].to_vec(),
                    "zero" => vec![0; 16],
                    _ => vec![0xff; 8],
                };
                format!("rr:{}", hx(&chunk))
            }
            _ => item.to_string(),
        };
        out.push(r);
    }
    out.join(",")
}

fn build_datagram(wd: &mut World, w: &[&str]) -> Vec<u8> {
    wd.last_seal = None;
    if kv(w, "d.same") == Some("1") {
        return wd.last_bytes.clone();
    }
    if let Some(raw) = kv(w, "d.raw") {
        wd.last_s2c_sealed = false;
        return unhex(raw).expect("raw hex");
    }
    let mut d: BTreeMap<String, String> = BTreeMap::new();
    for t in w {
        if let Some((k, v)) = t.split_once('=') {
            if let Some(k) = k.strip_prefix("d.") {
                d.insert(k.to_string(), v.to_string());
            }
        }
    }
    let v = match d.get("v").map(|s| s.as_str()) {
        None | Some("exp") => match wd.source.protocol_version {
            ProtocolVersion::V4 | ProtocolVersion::V4UpgradingToV5 { .. } => 4,
            _ => 5,
        },
        Some(x) => x.parse::<u8>().expect("d.v"),
    };
    d.insert("v".into(), v.to_string());
    let org = match d.get("org").map(|s| s.as_str()) {
        None | Some("match") => wd.cur.as_ref().map(|c| c.origin).unwrap_or(0),
        Some("prev") => wd.prev.as_ref().map(|c| c.origin).unwrap_or(1),
        Some("zero") => 0,
        Some("off1") => wd.cur.as_ref().map(|c| c.origin).unwrap_or(0) ^ 1,
        Some(x) => u64::from_str_radix(x, 16).expect("d.org"),
    };
    d.insert("org".into(), format!("{:016x}", org));
    for k in ["A", "E", "U"] {
        if let Some(s) = d.get(k).cloned() {
            let r = resolve_ef_list(wd, &s);
            d.insert(k.into(), r);
        }
    }
    let packet: NtpPacket<'static> = (&d).into();
    let mut buf = vec![0u8; 32768];
    let mut cursor = Cursor::new(buf.as_mut_slice());
    let sealing_key = match d.get("auth").map(|s| s.as_str()).unwrap_or("none") {
        "s2c" => Some(KEY_S2C),
        "c2s" => Some(KEY_C2S),
        "other" => Some(KEY_OTHER),
        _ => None,
    };
    let res = match sealing_key {
        Some(k) => {
            let c = RecCipher::new(k);
            let r = packet.serialize(&mut cursor, &c, None);
            let log = c.log.lock().unwrap();
            assert!(log.len() <= 1, "harness: more than one sealing for one datagram");
            wd.last_seal = log.first().cloned();
            r
        }
        None => packet.serialize(&mut cursor, &NoCipher, None),
    };
    res.expect("harness: datagram description does not serialise");
    let n = cursor.position() as usize;
    let mut bytes = buf[..n].to_vec();
    wd.last_s2c_sealed = sealing_key == Some(KEY_S2C) && wd.last_seal.is_some();
    if let Some(f) = d.get("fauth") {
        // forged NTS authenticator appended by hand (never sealed by anyone): `<nonce length>:<ciphertext length>`,
        // random nonce / ciphertext bytes derived from the lengths; layout type(2) len(2) nonce_len(2) ct_len(2)
        // nonce (padded to 4) ciphertext (padded to 4), zero-padded to at least 16 bytes
        let (nl, cl) = f.split_once(':').expect("fauth");
        let (nl, cl): (usize, usize) = (nl.parse().unwrap(), cl.parse().unwrap());
        let mut body = vec![];
        body.extend_from_slice(&(nl as u16).to_be_bytes());
        body.extend_from_slice(&(cl as u16).to_be_bytes());
        body.extend((0..nl).map(|i| 0xA0u8 ^ (i as u8).wrapping_mul(7)));
        while body.len() % 4 != 0 {
            body.push(0);
        }
        body.extend((0..cl).map(|i| 0x5Cu8 ^ (i as u8).wrapping_mul(13)));
        while body.len() % 4 != 0 || body.len() < 12 {
            body.push(0);
        }
        bytes.extend_from_slice(&0x0404u16.to_be_bytes());
        bytes.extend_from_slice(&((4 + body.len()) as u16).to_be_bytes());
        bytes.extend_from_slice(&body);
    }
    if let Some(m) = d.get("mut") {
        for item in m.split(',') {
            let (i, x) = item.split_once(':').expect("mut");
            let i: usize = i.parse().unwrap();
            let x = u8::from_str_radix(x, 16).unwrap();
            if !bytes.is_empty() {
                let l = bytes.len();
                bytes[i % l] ^= x;
            }
        }
    }
    if let Some(t) = d.get("trunc") {
        let t: usize = t.parse().unwrap();
        bytes.truncate(t.min(bytes.len()));
    }
    bytes
}

fn exec_incoming(wd: &mut World, w: &[&str], run: &mut Run, prop: Prop, key: &mut String) {
    let bytes = build_datagram(wd, w);
    wd.last_bytes = bytes.clone();
    let sts = u64::from_str_radix(kv(w, "sts").unwrap_or("0"), 16).expect("sts");
    let rcv = u64::from_str_radix(kv(w, "rcv").unwrap_or("0"), 16).expect("rcv");
    let rec: Option<BTreeMap<String, String>> =
        match NtpPacket::deserialize(&bytes, &wd.source.nts.as_ref().map(|nts| nts.s2c.as_ref())) {
            Ok((p, _)) => Some((&p).into()),
            Err(_) => None,
        };
    let now = now_ns(wd);
    let snap_before = NtpSourceSnapshot::from_source(&wd.source);
    let remote_before = wd.source.remote_min_poll_interval.as_log();
    let deny_before = wd.source.have_deny_rstr_response;
    let cookies_before = wd.source.nts.as_ref().map(|n| n.cookies.len());
    let m0 = wd.source.controller.measurements.len();
    let u0 = wd.source.controller.usable.len();
    let c0 = wd.source.controller.calls.len();
    let actions: Vec<NtpSourceAction> =
        wd.source.handle_incoming(&bytes, NtpTimestamp::from_bits(sts.to_be_bytes()), NtpTimestamp::from_bits(rcv.to_be_bytes())).collect();
    let ms = &wd.source.controller.measurements[m0..];
    let us = &wd.source.controller.usable[u0..];
    let mut out;
    let demob = actions.iter().any(|a| matches!(a, NtpSourceAction::Demobilize));
    let other = actions.iter().any(|a| !matches!(a, NtpSourceAction::Demobilize));
    let accepted = ms.len() == 2 && us.len() == 1;
    // order of the controller calls of this op (C03: a measurement may only reach the controller after the usability of
    // the answer that produced it has been reported)
    let ord: String = wd.source.controller.calls[c0..].iter().map(|b| *b as char).collect();
    if let Some(first_m) = ord.find('m') {
        let last_before = if accepted { wd.last_usable_flag } else { None };
        if !ord[..first_m].contains('u') {
            run.oracle_fail("c03_usable_before_measurement", &format!("order={} usable_now={} usable_before={:?}", ord, us.first().map(|b| *b as u8).unwrap_or(9), last_before.map(|b| b as u8)),
                "a measurement was handed to the controller before the usability of the answer that produced it was reported (a source that this answer makes unusable would still contribute)");
        }
    }
    if accepted {
        if wd.last_usable_flag == Some(true) && !us[0] {
            run.hit("answer-makes-usable-source-unusable");
        } else if wd.last_usable_flag == Some(false) && us[0] {
            run.hit("answer-makes-unusable-source-usable");
        }
    }
    if let Some(b) = us.last() {
        wd.last_usable_flag = Some(*b);
    }
    if other {
        out = "unexpected-actions".to_string();
    } else if demob && ms.is_empty() && us.is_empty() {
        out = "demobilize".to_string();
    } else if accepted && !demob {
        let (a, b) = (&ms[0], &ms[1]);
        out = format!(
            "acc ord={} us={} m={},{},{},{},{},{},{},{}",
            ord,
            us[0] as u8,
            ts_hex(a.sender_ts),
            ts_hex(a.receiver_ts),
            ts_hex(b.sender_ts),
            ts_hex(b.receiver_ts),
            durkey(a.root_delay),
            durkey(a.root_dispersion),
            leapnum(a.leap),
            a.precision
        );
        if a.root_delay != b.root_delay || a.root_dispersion != b.root_dispersion || a.leap != b.leap || a.precision != b.precision
            || a.sender_id != ClockId::SYSTEM || b.receiver_id != ClockId::SYSTEM || a.receiver_id != ClockId(1) || b.sender_id != ClockId(1)
        {
            out.push_str(" pair-mismatch");
        }
    } else if ms.is_empty() && us.is_empty() && !demob {
        out = "ignore".to_string();
    } else {
        out = format!("odd meas={} usable={} demob={}", ms.len(), us.len(), demob as u8);
    }
    run.hit(&format!("incoming-{}{}", out.split(' ').next().unwrap(), if rec.is_none() { "-parse-err" } else { "" }));
    let snap_after = NtpSourceSnapshot::from_source(&wd.source);
    let remote_after = wd.source.remote_min_poll_interval.as_log();
    let cookies_after = wd.source.nts.as_ref().map(|n| n.cookies.len());
    key.push(match out.as_bytes()[0] { b'a' => 'A', b'd' => 'X', b'i' => 'i', _ => '?' });
    if remote_after != remote_before {
        key.push('r');
    }
    if snap_after.protocol_version != snap_before.protocol_version {
        key.push('v');
    }

    // ---------------- oracles (the property evaluated on the implementation alone) ----------------
    let get = |k: &str| -> String { rec.as_ref().and_then(|r| r.get(k).cloned()).unwrap_or_default() };
    let cur = wd.cur.clone();
    // the request is pending until an answer to it has been used (the property's "pending request")
    let within = wd.meas_since_send == 0 && cur.as_ref().map(|c| now <= c.at_ns + 5_000_000_000).unwrap_or(false);
    let org_match = rec.is_some() && cur.as_ref().map(|c| format!("{:016x}", c.origin) == get("org")).unwrap_or(false);
    let uid_in = |list: &str| -> bool {
        match cur.as_ref().and_then(|c| c.uid.as_ref()) {
            None => false,
            Some(u) => {
                let h: String = u.iter().map(|x| format!("{:02x}", x)).collect();
                let l = get(list);
                l != "-" && l.split(',').any(|f| f.starts_with(&h))
            }
        }
    };
    let has_uid_req = cur.as_ref().map(|c| c.uid.is_some()).unwrap_or(false);
    let uid_all = |list: &str| -> bool {
        match cur.as_ref().and_then(|c| c.uid.as_ref()) {
            None => true,
            Some(u) => {
                let h: String = u.iter().map(|x| format!("{:02x}", x)).collect();
                let l = get(list);
                l == "-" || l.split(',').all(|f| f.starts_with(&h))
            }
        }
    };
    let uid_bound = !has_uid_req || ((uid_in("ua") || uid_in("ue")) && uid_all("ua") && uid_all("ue"));
    let version: u8 = get("v").parse().unwrap_or(0);
    let version_ok = expected_versions(snap_before.protocol_version).contains(&version);
    let stratum: u32 = get("st").parse().unwrap_or(999);
    let mode: u32 = get("m").parse().unwrap_or(999);
    let effect = out != "ignore"
        || remote_after != remote_before
        || snap_after.protocol_version != snap_before.protocol_version
        || cookies_after != cookies_before
        || wd.source.have_deny_rstr_response != deny_before
        || snap_after.reach.0 != snap_before.reach.0
        || snap_after.stratum != snap_before.stratum;
    // "an answer that must be accepted": parsed, bound to the CURRENT pending request (origin / cookie, and for NTS a
    // matching unique identifier in the authenticated or encrypted part and no contradicting one), really sealed by this
    // harness under the s2c key (NTS), expected version, stratum 1..16, server mode, within the window, and no answer
    // to this request was accepted before — whatever unauthenticated / invalid datagrams arrived in between
    let must_accept = rec.is_some() && org_match && uid_bound && within && version_ok && (1..=16).contains(&stratum) && mode == 4
        && (!wd.nts || wd.last_s2c_sealed);
    if matches!(prop, Prop::C07 | Prop::C08 | Prop::C09) {
        if must_accept {
            run.hit(if wd.junk_since_send > 0 { "genuine-answer-after-other-datagrams" } else { "genuine-answer-first" });
            if !accepted {
                run.oracle_fail("nak_is_inert", &format!("before={} nts={} v={}", wd.junk_since_send, wd.nts as u8, version),
                    "the genuine answer to the pending request was not accepted although no answer to that request had been accepted before (an earlier unauthenticated / inert datagram changed the source's state)");
            }
        }
        if !accepted {
            wd.junk_since_send += 1;
        }
    }
    // C08: a KISS packet (stratum 0) is never used as a time answer — read off the parsed header, whatever the reference id
    if accepted && rec.is_some() && stratum == 0 {
        run.oracle_fail("c08_stratum0_never_measured", &format!("v={} rid={} ascii={}", version, get("rid"),
            get("rid").parse::<u32>().map(|r| r.to_be_bytes().is_ascii() as u8).unwrap_or(9)),
            "an answer with stratum 0 (a KISS packet) yielded measurements");
    }
    if rec.is_some() && stratum == 0 && org_match && within && version_ok {
        let ascii = get("rid").parse::<u32>().map(|r| r.to_be_bytes().is_ascii()).unwrap_or(true);
        run.hit(if version == 5 { "stratum0-matching-v5" } else if ascii { "stratum0-matching-v34-ascii-refid" } else { "stratum0-matching-v34-nonascii-refid" });
    }
    if accepted {
        wd.meas_since_send += 1;
    }
    if prop == Prop::C08 {
        if accepted {
            let mut why = vec![];
            if !org_match { why.push("origin"); }
            if !uid_bound { why.push("uid"); }
            if !within { why.push("window"); }
            if !version_ok { why.push("version"); }
            if mode != 4 { why.push("mode"); }
            if stratum == 0 { why.push("kiss"); }
            if stratum > 16 { why.push("stratum"); }
            if !why.is_empty() {
                run.oracle_fail("measurement_conditions", &format!("why={}", why.join("+")), "a packet was used for synchronisation although it is not a fresh, well-formed answer to the pending request");
            }
            if wd.meas_since_send > 1 {
                run.oracle_fail("at_most_one", "", "two measurements for one request");
            }
        }
    }
    if prop == Prop::C07 && wd.nts {
        // authenticated AND bound: the parser's record says so, and — independently of the parser — the harness really
        // sealed this datagram under the s2c key (a datagram nobody sealed can never be authentic)
        let authentic = rec.is_some() && within && org_match && (uid_in("ua") || uid_in("ue")) && wd.last_s2c_sealed;
        if kv(w, "d.fauth").is_some() {
            run.hit(if effect { "c07-forged-auth-effect" } else { "c07-forged-auth-ignored" });
        }
        if !authentic && effect {
            let what = if demob { "demobilise" } else if accepted { "measurement" } else if remote_after != remote_before { "pollrate" }
                else if cookies_after != cookies_before { "cookie" } else if snap_after.protocol_version != snap_before.protocol_version { "version" } else { "state" };
            run.oracle_fail("unauthenticated_no_effect",
                &format!("effect={} v={} authnak={} stratum0={}", what, version, get("an"), (stratum == 0) as u8),
                "an NTS source reacted to a datagram that is not authenticated under the s2c key and bound to the pending request");
        }
        if accepted {
            // cookies must come from the encrypted list only: checked through the reference queue below, and here on counts
            let ce = get("ce");
            let n_enc = if ce == "-" { 0 } else { ce.split(',').count() };
            let want = (cookies_before.unwrap_or(0) + n_enc).min(8);
            if cookies_after != Some(want) {
                run.oracle_fail("cookies_from_encrypted", &format!("before={:?} after={:?} enc={}", cookies_before, cookies_after, n_enc), "stored cookie count does not match the encrypted cookie fields of the accepted answer");
            }
        }
    }
    if prop == Prop::C09 && rec.is_some() && org_match && uid_bound && within && version_ok && stratum == 0 {
        // a valid KISS answer
        let kc = get("kc");
        let pl: i8 = get("pl").parse().unwrap_or(0);
        let last = snap_before.poll_interval.as_log();
        let an = get("an") == "1";
        let (rate, deny, ntsn) = if version == 5 { (pl > last && pl != 127, pl == 127, an) } else { (kc == "rate", kc == "deny" || kc == "rstr", kc == "ntsn") };
        run.hit(if ntsn { "c09-valid-ntsn" } else if rate { "c09-valid-rate" } else if deny { "c09-valid-deny" } else { "c09-valid-unknown" });
        if ntsn || (!rate && !deny) {
            // NTS-NAK or unknown: inert (protocol upgrade bookkeeping aside)
            if out != "ignore" || remote_after != remote_before || wd.source.have_deny_rstr_response != deny_before
                || snap_after.reach.0 != snap_before.reach.0 || snap_after.stratum != snap_before.stratum
            {
                run.oracle_fail("ntsn_unknown_inert", &format!("v={} authnak={} nts={}", version, an as u8, wd.nts as u8), "an NTS-NAK / unknown KISS changed synchronisation, polling or demobilisation state");
            }
        } else if rate {
            if remote_after < last {
                run.oracle_fail("rate_never_faster", &format!("remote_min={} last={}", remote_after, last), "after RATE the source may poll faster than it just did");
            }
            if remote_before <= last && remote_before < wd.limits.1 && remote_after < remote_before + 1 {
                run.oracle_fail("rate_lengthens", &format!("before={} after={}", remote_before, remote_after), "RATE did not lengthen the interval by a step");
            }
            if out != "ignore" {
                run.oracle_fail("rate_never_faster", "", "RATE produced an action or measurement");
            }
        } else if deny {
            if wd.nts && !demob {
                run.oracle_fail("deny_rstr", "nts=1", "authenticated DENY/RSTR did not demobilise the NTS source");
            }
            if !wd.nts && (demob || !wd.source.have_deny_rstr_response) {
                run.oracle_fail("deny_rstr", "nts=0", "unauthenticated DENY/RSTR demobilised at once or was not marked");
            }
        }
    }
    if prop == Prop::C12 {
        if effect && rec.is_some() && !version_ok {
            run.oracle_fail("accept_expected_only", &format!("v={} proto={}", version, proto_str(snap_before.protocol_version)), "a packet of an unexpected version had an effect");
        }
        let (pb, pa) = (snap_before.protocol_version, snap_after.protocol_version);
        // an NTS-NAK is accepted with the clear-text uid (valid_server_response's NAK rule)
        let is_nak = stratum == 0 && if version == 5 { get("an") == "1" } else { get("kc") == "ntsn" };
        let nak_bound = wd.nts && is_nak && uid_in("uu") && uid_all("uu") && uid_all("ua") && uid_all("ue");
        let valid = rec.is_some() && org_match && (uid_bound || nak_bound) && within && version_ok;
        let marker = get("rts") == "4e54503544524654" && version == 4;
        // harness bookkeeping for "falls back only if two polls are missed BEFORE the first matching NTPv5 answer": the
        // outstanding request was an NTPv5 one and this datagram is a matching NTPv5 answer to it (client cookie, pending,
        // within the window) — whatever its content (normal, KISS of any kind)
        let automatic = matches!(wd.init_proto, ProtocolVersion::V4UpgradingToV5 { .. } | ProtocolVersion::UpgradedToV5);
        if automatic && !wd.nts && valid && version == 5 && cur.as_ref().map(|c| c.version == 5).unwrap_or(false) {
            if !wd.v5_match_seen {
                run.hit(if stratum == 0 { "c12-first-v5-match-is-kiss" } else { "c12-first-v5-match-is-answer" });
            }
            wd.v5_match_seen = true;
        }
        // "returns to plain NTPv4 after eight matching answers without [the marker]"
        if let ProtocolVersion::V4UpgradingToV5 { tries_left: n0 } = wd.init_proto {
            if valid && matches!(pb, ProtocolVersion::V4UpgradingToV5 { .. }) {
                if marker { wd.marker_seen = true } else { wd.nonup_valid += 1 }
            }
            if !wd.marker_seen && wd.nonup_valid >= (n0 as usize).max(1) && pa != ProtocolVersion::V4 {
                run.oracle_fail("eight_without_marker", &format!("answers={} tries={}", wd.nonup_valid, n0), "still not back in plain NTPv4 after the configured number of matching answers without the upgrade marker");
            }
        }
        if pb != pa {
            let ok = match (pb, pa) {
                (ProtocolVersion::V4UpgradingToV5 { .. }, ProtocolVersion::UpgradedToV5) => valid && marker,
                (ProtocolVersion::V4UpgradingToV5 { tries_left: a }, ProtocolVersion::V4UpgradingToV5 { tries_left: b }) => valid && !marker && b + 1 == a,
                (ProtocolVersion::V4UpgradingToV5 { tries_left }, ProtocolVersion::V4) => valid && !marker && tries_left <= 1,
                (ProtocolVersion::UpgradedToV5, ProtocolVersion::V5) => valid && version == 5,
                _ => false,
            };
            if !ok {
                run.oracle_fail("upgrade_protocol", &format!("from={} to={}", proto_str(pb), proto_str(pa)), "protocol-version change outside the upgrade protocol");
            }
        }
    }
    if prop == Prop::C33 && accepted {
        // the usable flag must be false when the property forbids use
        let si = wd.source.source_info.read().unwrap();
        let local_ids: Vec<u32> = si.ip_list.iter().map(|ip| refid_u32(ReferenceId::from_ip(*ip))).collect();
        let sid = refid_u32(snap_after.source_id);
        let rid = refid_u32(snap_after.reference_id);
        let st = snap_after.stratum;
        // (against the id this daemon ADVERTISES — in manager mode read off the manager's advertised filter, not the id
        // the source happens to hold)
        let bloom_loop = snap_after.bloom_filter.map(|f| contains_own(&wd.server_id, &wd.adv_filter, &f)).unwrap_or(false);
        if wd.adv_filter.is_some() {
            run.hit(if bloom_loop { "c33-mgr-peer-filter-has-own-id" } else { "c33-mgr-peer-filter-clean" });
            // wiring invariant, directly: the id handed to the source is the advertised one
            let handed = {
                let mut f = BloomFilter::new();
                f.add_id(&si.server_id);
                f
            };
            if Some(handed.as_bytes()) != wd.adv_filter.as_ref().map(|a| a.as_bytes()) {
                run.oracle_fail("one_server_id", "where=source", "the server id the manager handed to its source differs from the id in the manager's advertised Bloom filter");
            }
        }
        let is_self = local_ids.contains(&sid);
        let refid_loop = st > 1 && version != 5 && local_ids.contains(&rid);
        if us[0] {
            if st >= si.local_stratum {
                run.oracle_fail("accept", "why=stratum", "source with stratum not below the local stratum marked usable");
            }
            if snap_after.reach.0 == 0 {
                run.oracle_fail("accept", "why=unreachable", "unreachable source marked usable");
            }
            if bloom_loop {
                run.oracle_fail("accept", "why=bloom", "source whose Bloom filter contains this daemon's id marked usable");
            }
            if is_self {
                run.oracle_fail("refid_loop_rejected", &format!("kind=self stratum1={}", (st == 1) as u8), "the daemon's own address is used as a source");
            }
            if refid_loop && !is_self {
                run.oracle_fail("refid_loop_rejected", "kind=reported_refid", "a source that reports this daemon as its reference is used");
            }
        }
    }
    // harness bookkeeping: a valid RATE answer (bound to the pending request, expected version, stratum 0, RATE code / v5
    // poll above the poll just used, not an NTS-NAK; NTS: authenticated) to the poll sent with interval `last`
    if matches!(prop, Prop::C09 | Prop::C10) && rec.is_some() && org_match && uid_bound && within && version_ok && stratum == 0
        && (!wd.nts || wd.last_s2c_sealed)
    {
        let kc = get("kc");
        let pl: i8 = get("pl").parse().unwrap_or(0);
        let last = cur.as_ref().map(|c| c.poll as i8).unwrap_or(0);
        let an = get("an") == "1";
        let (rate, ntsn) = if version == 5 { (pl > last && pl != 127, an) } else { (kc == "rate", kc == "ntsn") };
        if rate && !ntsn {
            wd.rate_floor = Some(wd.rate_floor.map(|f| f.max(last)).unwrap_or(last));
            run.hit(if wd.source.controller.poll.as_log() < last { "valid-rate-after-desire-dropped" } else { "valid-rate" });
        }
    }
    // harness bookkeeping of "a valid unauthenticated DENY/RSTR answer since the last usable answer" (plain sources):
    // bound to the pending request, expected version, stratum 0, DENY/RSTR code (v5: poll 127), not an NTS-NAK, not RATE
    if !wd.nts && rec.is_some() && org_match && uid_bound && within && version_ok && stratum == 0 {
        let kc = get("kc");
        let pl: i8 = get("pl").parse().unwrap_or(0);
        let last = snap_before.poll_interval.as_log();
        let an = get("an") == "1";
        let (rate, deny, ntsn) = if version == 5 { (pl > last && pl != 127, pl == 127, an) } else { (kc == "rate", kc == "deny" || kc == "rstr", kc == "ntsn") };
        if wd.deny_seen {
            // a further valid KISS answer while the mark is set: it must survive all of them
            run.hit(if ntsn { "deny-then-ntsn" } else if rate { "deny-then-rate" } else if deny { "deny-then-deny" } else { "deny-then-unknown-kiss" });
        }
        if deny && !rate && !ntsn {
            wd.deny_seen = true;
            run.hit("valid-plain-deny");
        }
    }
    // bookkeeping for later oracles
    if accepted {
        wd.deny_seen = false;
        wd.polls_since_usable = 0;
        wd.usable_answers += 1;
        wd.deny_marked = false;
        if version == 5 {
            let pl: i8 = get("pl").parse().unwrap_or(0);
            wd.max_asked = wd.max_asked.max(pl);
        }
        if wd.nts {
            let ce = get("ce");
            if ce != "-" {
                for c in ce.split(',') {
                    wd.reference.push_back(if c == "e" { vec![] } else { unhex(c).unwrap() });
                    if wd.reference.len() > 8 {
                        wd.reference.pop_front();
                    }
                }
            }
        }
    }
    if prop == Prop::C13 {
        let held = wd.source.observe("x".into(), ClockId(1)).nts_cookies;
        if held != Some(wd.reference.len()) {
            run.oracle_fail("keeps_newest_eight", &format!("held={:?} want={}", held, wd.reference.len()), "number of cookies held differs from min(8, received and not yet used)");
        }
        if accepted {
            let ce = get("ce");
            let k = if ce == "-" { 0 } else { ce.split(',').count() };
            run.hit(&format!("c13-delivered-{}", if k > 8 { "9+".to_string() } else { k.to_string() }));
        }
    }
    if wd.source.have_deny_rstr_response {
        wd.deny_marked = true;
    }
    if remote_after > remote_before && !accepted {
        // RATE raised the floor: later polls may legitimately exceed the configured maximum only up to last poll
        wd.max_asked = wd.max_asked.max(remote_after.min(snap_before.poll_interval.as_log()));
    }

    oracle_missed_polls(wd, run, prop);

    // ---------------- op line for the model ----------------
    let mut op = String::from(if wd.bytes_mode { "incomingb" } else { "incoming" });
    if wd.bytes_mode {
        // byte mode: the model computes the packet record from these bytes itself (parser model + ideal-AEAD
        // table of the sealings performed so far in this case); the record below is only cross-checked
        op.push_str(&format!(" key={} bytes={} seal={}", if wd.nts { hex(&KEY_S2C) } else { "-".to_string() },
            if bytes.is_empty() { "-".to_string() } else { hex(&bytes) }, wd.last_seal.clone().unwrap_or_else(|| "-".to_string())));
    }
    for t in w.iter().skip(1) {
        if t.starts_with("d.") || t.starts_with("dt=") || t.starts_with("sts=") || t.starts_with("rcv=") {
            op.push(' ');
            op.push_str(t);
        }
    }
    if kv(w, "sts").is_none() {
        op.push_str(" sts=0");
    }
    if kv(w, "rcv").is_none() {
        op.push_str(" rcv=0");
    }
    op.push_str(&format!(" now={}", now));
    match &rec {
        None => op.push_str(" p=err"),
        Some(r) => {
            op.push_str(" p=ok");
            for (k, v) in r {
                op.push_str(&format!(" {}={}", k, v));
            }
        }
    }
    let ba = match snap_after.bloom_filter {
        None => "none".to_string(),
        Some(f) => (contains_own(&wd.server_id, &wd.adv_filter, &f) as u8).to_string(),
    };
    op.push_str(&format!(" ba={}", ba));
    let st = state_str(wd);
    run.end_op_as(&op, &format!("{}{}", out, st));
}

fn exec_accept(w: &[&str], run: &mut Run) {
    let num = |k: &str| -> u64 { kv(w, k).expect(k).parse().expect("num") };
    let lids: Vec<IpAddr> = match kv(w, "lids").expect("lids") {
        "-" => vec![],
        s => s.split(',').map(|x| IpAddr::V4(Ipv4Addr::from(x.parse::<u32>().unwrap()))).collect(),
    };
    let (server_id, mut filter) = pick_server_id();
    let bloom = match kv(w, "bl").expect("bl") {
        "none" => None,
        "1" => Some(filter),
        _ => {
            filter = BloomFilter::new();
            let (other, _) = pick_server_id();
            filter.add_id(&other);
            if filter.contains_id(&server_id) { Some(BloomFilter::new()) } else { Some(filter) }
        }
    };
    let sid = num("sid") as u32;
    let rid = kv(w, "rid").map(|x| x.parse::<u32>().unwrap()).unwrap_or(0);
    let snap = NtpSourceSnapshot {
        source_addr: SocketAddr::new(IpAddr::V4(Ipv4Addr::from(sid)), 123),
        source_id: ReferenceId::from_ip(IpAddr::V4(Ipv4Addr::from(sid))),
        poll_interval: PollInterval::default(),
        reach: Reach(num("reach") as u8),
        stratum: num("st") as u8,
        reference_id: ReferenceId::from_int(rid),
        protocol_version: ProtocolVersion::V4,
        bloom_filter: bloom,
    };
    let lstrat = num("lstrat") as u8;
    let res = snap.accept_synchronization(lstrat, &lids, server_id);
    let out = match &res {
        Ok(()) => "ok".to_string(),
        Err(e) => format!("err:{:?}", e),
    };
    run.hit(&format!("accept-{}", out));
    // oracle: the property's list of reasons a source must not be used
    if res.is_ok() {
        let local_ids: Vec<u32> = lids.iter().map(|ip| refid_u32(ReferenceId::from_ip(*ip))).collect();
        let st = num("st") as u8;
        if st >= lstrat {
            run.oracle_fail("accept", "why=stratum", "source with stratum not below the local stratum accepted");
        }
        if num("reach") == 0 {
            run.oracle_fail("accept", "why=unreachable", "unreachable source accepted");
        }
        if kv(w, "bl") == Some("1") {
            run.oracle_fail("accept", "why=bloom", "Bloom filter contains this daemon's id, source accepted");
        }
        let is_self = local_ids.contains(&sid);
        if is_self {
            run.oracle_fail("refid_loop_rejected", &format!("kind=self stratum1={}", (st == 1) as u8), "the daemon's own address is accepted as a source");
        }
        if st > 1 && local_ids.contains(&rid) && !is_self {
            run.oracle_fail("refid_loop_rejected", "kind=reported_refid", "a source that reports this daemon as its reference is accepted");
        }
        run.nontrivial(&format!("ok-{}-{}", st, lids.len()));
    } else {
        run.nontrivial(&out);
    }
    run.end_op(&out);
}

fn exec_case(ops: &[String], run: &mut Run, prop: Prop, rt: &tokio::runtime::Runtime) {
    rt.block_on(async {
        let mut world: Option<World> = None;
        let mut key = String::new();
        let mut interesting = false;
        for op in ops {
            run.begin_op(op);
            let w: Vec<&str> = op.split_whitespace().collect();
            match w[0] {
                "cfg" => {
                    let mut wd = new_world(&w[1..]);
                    wd.bytes_mode = std::env::var("VERIF_STREAM").map(|s| s.starts_with("sm_bytes")).unwrap_or(false);
                    key.push_str(&format!("C{}{}{}", wd.nts as u8, proto_str(wd.source.protocol_version), wd.limits.0));
                    if prop == Prop::C14 {
                        key.push_str(kv(&w, "stash").unwrap_or("-"));
                    }
                    let st = state_str(&wd);
                    world = Some(wd);
                    run.end_op(&format!("ok{}", st));
                }
                "timer" | "incoming" => {
                    let dt: u64 = kv(&w, "dt").unwrap_or("0").parse().expect("dt");
                    if dt > 0 {
                        tokio::time::advance(std::time::Duration::from_nanos(dt)).await;
                    }
                    let wd = world.as_mut().expect("cfg first");
                    if w[0] == "timer" {
                        exec_timer(wd, &w, run, prop, &mut key);
                    } else {
                        exec_incoming(wd, &w, run, prop, &mut key);
                    }
                    interesting = true;
                }
                "desire" => {
                    // the controller changes its desired poll interval between two ops (clock step, filter reset, …)
                    let wd = world.as_mut().expect("cfg first");
                    let p: i64 = kv(&w, "p").expect("p").parse().expect("p");
                    wd.source.controller.poll = PollInterval::from_byte(p as i8 as u8);
                    key.push('d');
                    let st = state_str(wd);
                    run.end_op(&format!("ok{}", st));
                }
                "accept" => exec_accept(&w, run),
                _ => run.end_op("bad-op"),
            }
        }
        if interesting {
            run.nontrivial(&key);
        }
    });
}

// ------------------------------------------------------------------------------------------------ generators

const KISS_DENY: u32 = u32::from_be_bytes(*b"DENY");
const KISS_RATE: u32 = u32::from_be_bytes(*b"RATE");
const KISS_RSTR: u32 = u32::from_be_bytes(*b"RSTR");
const KISS_NTSN: u32 = u32::from_be_bytes(*b"NTSN");

struct GenCfg {
    nts: bool,
    proto: String,
    min: i8,
    max: i8,
}

/// cookie sizes of the C13 stream (>= 4 so that the counter tag keeps every cookie distinct; 724 is the largest
/// cookie that still yields a request, 725 and 800 make the timer reset; 90/91, 181/182, 362/363 straddle the
/// size-limited counts 8, 4/3, 2/1)
const C13_SIZES: &[usize] = &[4, 16, 64, 90, 91, 100, 100, 100, 104, 181, 182, 362, 363, 400, 724, 725, 800];

fn gen_cfg(rng: &mut Rng, prop: Prop) -> (String, GenCfg) {
    let (min, max) = match rng.below(10) {
        0 => (0, 0),
        1 => (0, 17),
        2 => {
            let a = rng.range(0, 17);
            (a, a)
        }
        3 | 4 => {
            let a = rng.range(0, 17);
            (a, rng.range(a, 17))
        }
        _ => (4, 10),
    };
    let nts = match prop {
        Prop::C13 => true,
        Prop::C07 => rng.chance(9, 10),
        Prop::C11 | Prop::C12 => rng.chance(1, 4),
        _ => rng.chance(2, 5),
    };
    let proto = if nts {
        match rng.below(20) {
            // (an NTS source is created with the version key exchange negotiated, V4 or V5; the two other states are
            // unreachable for it and only generated outside the C07 stream, for the model tie)
            0 if prop != Prop::C07 && prop != Prop::C13 => "up:8".to_string(),
            1 if prop != Prop::C07 && prop != Prop::C13 => "upd".to_string(),
            2..=10 => "v4".to_string(),
            _ => "v5".to_string(),
        }
    } else {
        match rng.below(12) {
            0 | 1 => "v4".to_string(),
            2 | 3 => "v5".to_string(),
            4 => "upd".to_string(),
            5 => format!("up:{}", rng.range(0, 3)),
            _ => "up:8".to_string(),
        }
    };
    let lstrat = *rng.pick(&[16u8, 16, 16, 16, 1, 2, 3, 5]);
    let nl = rng.below(4);
    let lids: Vec<u32> = (0..nl).map(|i| 0x0a00_0001 + i as u32).collect();
    let sid: u32 = if prop == Prop::C33 && !lids.is_empty() && rng.chance(1, 5) { lids[0] } else { 0xc0a8_0105 };
    let bloom = if proto != "v4" && rng.chance(if prop == Prop::C33 { 1 } else { 0 } + 1, 6) { *rng.pick(&["0", "1"]) } else { "none" };
    // C33: half of the sources are created through a real NtpManager (the daemon's wiring of server ids); those get
    // a pre-filled peer filter more often (with / one chunk short of this daemon's advertised id)
    let mgr = prop == Prop::C33 && rng.chance(1, 2);
    let bloom = if mgr && proto != "v4" && rng.chance(2, 3) { *rng.pick(&["0", "1", "1"]) } else { bloom };
    let mut s = format!(
        "cfg min={} max={} nts={} proto={} lstrat={} lids={} sid={} bloom={}{}",
        min, max, nts as u8, proto, lstrat, common::comma_list(&lids), sid, bloom, if mgr { " mgr=1" } else { "" }
    );
    if nts {
        let l = match rng.below(10) {
            _ if prop == Prop::C13 => *rng.pick(C13_SIZES),
            0 => *rng.pick(&[0usize, 1, 90, 91, 103, 104, 181, 362, 724, 725]),
            _ => 100,
        };
        let c = match rng.below(6) {
            _ if prop == Prop::C13 => rng.usize(0, 8),
            0 => rng.usize(0, 2),
            1 => rng.usize(3, 7),
            _ => 8,
        };
        s.push_str(&format!(" stash={}:{}", l, c));
    }
    (s, GenCfg { nts, proto, min: min as i8, max: max as i8 })
}

fn gen_incoming(rng: &mut Rng, g: &GenCfg, prop: Prop, since_timer_ns: &mut u64) -> String {
    // time: mostly inside the 5 s window, sometimes exactly at / just beyond it
    let dt: u64 = match rng.below(14) {
        0 => 5_000_000_000u64.saturating_sub(*since_timer_ns),
        1 => 5_000_000_001u64.saturating_sub(*since_timer_ns),
        2 => 6_000_000_000,
        3 => 0,
        _ => rng.below(200_000_000),
    };
    *since_timer_ns += dt;
    let mut t = format!("incoming dt={} sts={:016x} rcv={:016x}", dt, rng.next_u64(), rng.next_u64());
    if rng.chance(1, 14) {
        t.push_str(" d.same=1");
        return t;
    }
    if rng.chance(1, 40) {
        let n = *rng.pick(&[0usize, 1, 47, 48, 60]);
        t.push_str(&format!(" d.raw={}", hex(&rng.bytes(n))));
        return t;
    }
    if rng.chance(if prop == Prop::C07 { 5 } else { 1 }, 40) {
        // forged reply: everything in the clear (the request's unique identifier included), followed by a hand-made
        // NTS authenticator whose ciphertext is empty or shorter than a SIV tag, nonce lengths around 16
        let nl = *rng.pick(&[0usize, 1, 15, 16, 16, 17, 32]);
        let cl = match rng.below(4) {
            0 | 1 => 0,
            _ => rng.usize(1, 15),
        };
        let (st, rid, pl) = match rng.below(4) {
            0 => (0, KISS_DENY, 127),
            1 => (0, KISS_RATE, 12),
            _ => (rng.range(1, 15), 0x7f00_0001u32, rng.range(g.min as i64, (g.max as i64).max(g.min as i64))),
        };
        let v = match rng.below(6) {
            0 => "4",
            1 => "5",
            _ => "exp",
        };
        let ck = if rng.chance(1, 3) { ",ck:100" } else { "" };
        return t + &format!(" d.v={} d.org=match d.st={} d.rid={} d.pl={} d.an=0 d.mode=4 d.lp=0 d.rx={:016x} d.tx={:016x} d.rd={} d.rdp={} d.auth=none d.A=- d.E=- d.U=uid:match,draft{} d.fauth={}:{}",
            v, st, rid, pl as i8 as u8, rng.next_u64(), rng.next_u64(), rng.below(1 << 20), rng.below(1 << 20), ck, nl, cl);
    }
    if prop == Prop::C13 && rng.chance(5, 6) {
        return t + &gen_clean_answer(rng, g, prop);
    }
    if rng.chance(match prop { Prop::C11 => 3, Prop::C09 | Prop::C07 => 1, _ => 2 }, 4) {
        return t + &gen_clean_answer(rng, g, prop);
    }
    // version
    let v = match rng.below(12) {
        0 => "3",
        1 => "4",
        2 => "5",
        _ => "exp",
    };
    t.push_str(&format!(" d.v={}", v));
    // origin
    let org = match rng.below(14) {
        0 => "prev",
        1 => "zero",
        2 => "off1",
        _ => "match",
    };
    t.push_str(&format!(" d.org={}", org));
    // kind of answer
    let kind_w = match prop {
        Prop::C09 => 55,
        Prop::C07 => 40,
        Prop::C11 => 35,
        _ => 30,
    };
    let kiss = rng.below(100) < kind_w;
    let mut stratum: u32 = match rng.below(12) {
        0 => 16,
        1 => 17,
        2 => 255,
        3 => 1,
        _ => rng.range(1, 15) as u32,
    };
    let mut rid: u32 = match rng.below(6) {
        0 => 0x0a00_0001, // a local address (F-C33 witness material)
        _ => 0x7f00_0001 + rng.below(3) as u32,
    };
    let mut pl: i64 = match rng.below(10) {
        0 => 127,
        1 => rng.range(-3, 0),
        2 => rng.range(11, 20),
        3 => (g.max as i64) + 1,
        _ => rng.range(g.min as i64, (g.max as i64).max(g.min as i64)),
    };
    let mut an = 0;
    if kiss {
        stratum = 0;
        // reference id of a stratum-0 answer: the known kiss codes (half), four random ASCII letters, four random bytes
        // with at least one >= 0x80, an IPv4-looking id, all-zero — it is a KISS packet whatever the id looks like
        rid = match rng.below(12) {
            0..=5 => *rng.pick(&[KISS_DENY, KISS_RATE, KISS_RATE, KISS_RSTR, KISS_NTSN, u32::from_be_bytes(*b"XXXX")]),
            6 | 7 => u32::from_be_bytes([b'A' + rng.below(26) as u8, b'A' + rng.below(26) as u8, b'A' + rng.below(26) as u8, b'A' + rng.below(26) as u8]),
            8 | 9 => (rng.next_u64() as u32) | (0x80u32 << (8 * rng.below(4) as u32)),
            10 => *rng.pick(&[0xc0a8_0001u32, 0x0a00_0001, 0x7f00_0001, 0xac10_fe01]),
            _ => 0,
        };
        if rng.chance(1, 3) {
            an = 1;
        }
        pl = match rng.below(6) {
            0 => 127,
            1 => 0,
            2 => rng.range(g.min as i64, 17),
            _ => rng.range(5, 12),
        };
    } else if rng.chance(1, 25) {
        an = 1;
    }
    t.push_str(&format!(" d.st={} d.rid={} d.pl={} d.an={}", stratum, rid, pl as i8 as u8, an));
    let mode = match rng.below(16) {
        0 => 3,
        1 => 5,
        2 => 1,
        _ => 4,
    };
    t.push_str(&format!(" d.mode={}", mode));
    if rng.chance(if g.proto.starts_with("up") { 1 } else { 0 } * 5 + 1, 12) {
        t.push_str(" d.rts=4e54503544524654");
    } else if rng.chance(1, 30) {
        t.push_str(" d.rts=4e54503544524655");
    }
    t.push_str(&format!(" d.lp={} d.rx={:016x} d.tx={:016x} d.rd={} d.rdp={}", rng.below(4), rng.next_u64(), rng.next_u64(), rng.below(1 << 20), rng.below(1 << 20)));
    // extension fields
    let mut a: Vec<String> = vec![];
    let mut e: Vec<String> = vec![];
    let mut u: Vec<String> = vec![];
    let draft_needed = true; // harmless for v3/v4 (unknown field there), required for v5
    let mut auth = "none";
    if g.nts {
        // NTS answers: authenticated (s2c), under a wrong key, or not at all
        let mode = rng.below(20);
        auth = match mode {
            0 | 1 => "c2s",
            2 => "other",
            3..=6 => "none",
            _ => "s2c",
        };
        let uid_item = match rng.below(14) {
            0 => "uid:wrong",
            1 => "uid:prev",
            2 => "uid:short",
            3 => "uid:long",
            _ => "uid:match",
        };
        let ncook = match rng.below(8) {
            0 => 0,
            1 => rng.usize(2, 12),
            _ => 1,
        };
        let clen = match rng.below(8) {
            // (C13: at least 4 bytes, so that the counter tag keeps delivered cookies distinct)
            0 => (*rng.pick(&[1usize, 4, 90, 91, 181, 362, 724, 725, 800])).max(if prop == Prop::C13 { 4 } else { 0 }),
            _ => 100,
        };
        let cookies: Vec<String> = (0..ncook).map(|_| format!("ck:{}", clen)).collect();
        if auth == "none" {
            // everything travels unauthenticated
            if rng.chance(7, 8) {
                u.push(uid_item.to_string());
            }
            u.extend(cookies);
        } else {
            match rng.below(10) {
                0 => e.push(uid_item.to_string()),
                1 => u.push(uid_item.to_string()),
                2 => {
                    a.push(uid_item.to_string());
                    u.push("uid:wrong".into());
                }
                3 => {}
                _ => a.push(uid_item.to_string()),
            }
            match rng.below(10) {
                0 => a.extend(cookies),
                1 => u.extend(cookies),
                _ => e.extend(cookies),
            }
        }
    } else if rng.chance(1, 10) {
        u.push("uid:match".into());
    }
    if draft_needed && !rng.chance(1, 40) {
        if g.nts && auth != "none" && rng.chance(4, 5) { a.push("draft".into()) } else { u.push("draft".into()) }
    }
    if rng.chance(1, 6) {
        let item = format!("rr:{}", *rng.pick(&["one", "one", "zero", "bad"]));
        if g.nts && auth != "none" && rng.chance(3, 4) { a.push(item) } else { u.push(item) }
    }
    if auth == "none" && (!a.is_empty() || !e.is_empty()) {
        u.extend(a.drain(..));
        u.extend(e.drain(..));
    }
    let j = |x: &Vec<String>| if x.is_empty() { "-".to_string() } else { x.join(",") };
    t.push_str(&format!(" d.auth={} d.A={} d.E={} d.U={}", auth, j(&a), j(&e), j(&u)));
    if rng.chance(1, 25) {
        let k = rng.usize(1, 3);
        let muts: Vec<String> = (0..k).map(|_| format!("{}:{:02x}", rng.below(400), 1u8 << rng.below(8))).collect();
        t.push_str(&format!(" d.mut={}", muts.join(",")));
    }
    if rng.chance(1, 60) {
        t.push_str(&format!(" d.trunc={}", rng.below(120)));
    }
    t
}

/// a well-formed, authentic answer to the pending request (benign fields randomised)
fn gen_clean_answer(rng: &mut Rng, g: &GenCfg, prop: Prop) -> String {
    let stratum = match rng.below(8) {
        0 => 1,
        1 => 16,
        _ => rng.range(1, 15),
    };
    let pl: i64 = match rng.below(8) {
        0 => rng.range(11, 20),
        1 => (g.max as i64) + 1,
        _ => rng.range(g.min as i64, (g.max as i64).max(g.min as i64)),
    };
    let rid: u32 = if rng.chance(1, 8) { 0x0a00_0001 } else { 0x7f00_0001 + rng.below(3) as u32 };
    let mut t = format!(" d.v=exp d.org=match d.st={} d.rid={} d.pl={} d.an=0 d.mode=4 d.lp={} d.rx={:016x} d.tx={:016x} d.rd={} d.rdp={}",
        stratum, rid, pl as i8 as u8, rng.below(4), rng.next_u64(), rng.next_u64(), rng.below(1 << 20), rng.below(1 << 20));
    if g.proto.starts_with("up") && rng.chance(1, 3) {
        t.push_str(" d.rts=4e54503544524654");
    }
    let rr = if rng.chance(1, 5) { *rng.pick(&[",rr:one", ",rr:zero"]) } else { "" };
    if g.nts {
        let ncook = match rng.below(8) {
            0 => 0,
            1 => rng.usize(2, 9),
            _ => 1,
        };
        let clen = if rng.chance(1, 8) { *rng.pick(&[1usize, 90, 91, 181, 362, 724, 725]) } else { 100 };
        let cookies: Vec<String> = if prop == Prop::C13 {
            // 0-12 cookies; sizes: one size for the whole response, or assorted
            let k = rng.usize(0, 12);
            // mostly small cookies (cheap), the full size table one time in four
            let common = if rng.chance(3, 4) { *rng.pick(&[4usize, 16, 64, 100, 100, 104]) } else { *rng.pick(C13_SIZES) };
            let assorted = rng.chance(1, 4);
            // (the whole datagram has to stay a sane UDP payload: at most ~3000 bytes of cookies)
            let mut budget = 3000usize;
            (0..k)
                .filter_map(|_| {
                    let l = if assorted { *rng.pick(C13_SIZES) } else { common };
                    if l <= budget {
                        budget -= l;
                        Some(format!("ck:{}", l))
                    } else {
                        None
                    }
                })
                .collect()
        } else {
            (0..ncook).map(|_| format!("ck:{}", clen)).collect()
        };
        let e = if cookies.is_empty() { "-".to_string() } else { cookies.join(",") };
        // (C13: now and then a cookie field also in the authenticated / untrusted list — never to be stored)
        let extra_a = if prop == Prop::C13 && rng.chance(1, 10) { ",ck:100" } else { "" };
        let extra_u = if prop == Prop::C13 && rng.chance(1, 10) { "ck:100" } else { "-" };
        t.push_str(&format!(" d.auth=s2c d.A=uid:match,draft{}{} d.E={} d.U={}", rr, extra_a, e, extra_u));
    } else {
        t.push_str(&format!(" d.auth=none d.A=- d.E=- d.U=draft{}", rr));
    }
    t
}

fn gen_script(rng: &mut Rng, prop: Prop) -> Vec<String> {
    let (cfg, g) = gen_cfg(rng, prop);
    let mut ops = vec![cfg];
    let n = rng.usize(5, if prop == Prop::C11 || prop == Prop::C12 || prop == Prop::C13 { 60 } else { 40 });
    // probability (in %) that a poll gets a plain good answer right away
    let answer_rate = match prop {
        Prop::C11 => *rng.pick(&[0u64, 30, 60, 95, 100]),
        Prop::C13 => *rng.pick(&[40u64, 80, 95, 100]),
        _ => *rng.pick(&[50u64, 80, 95]),
    };
    if prop == Prop::C12 && !g.nts && g.proto.starts_with("up") && rng.chance(1, 4) {
        // structured upgrade history: (marker answer ->) upgraded; the first matching NTPv5 answer is a KISS of some kind
        // (or a normal answer, or there is none); then 2-4 polls without answer; then normal traffic
        let des = g.min as i64;
        if g.proto != "upd" {
            ops.push(format!("timer dt=16000000000 des={}", des));
            ops.push(format!("incoming dt=1000000 sts={:016x} rcv={:016x} d.v=4 d.org=match d.st=2 d.rid=2130706433 d.pl={} d.an=0 d.mode=4 d.rts=4e54503544524654 d.lp=0 d.rx={:016x} d.tx={:016x} d.rd=1 d.rdp=1 d.auth=none d.A=- d.E=- d.U=-",
                rng.next_u64(), rng.next_u64(), des as i8 as u8, rng.next_u64(), rng.next_u64()));
        }
        ops.push(format!("timer dt=16000000000 des={}", des));
        match rng.below(7) {
            0 => {}                                                                 // no answer at all: fallback is right
            1 => ops.push(format!("incoming dt=1000000 sts={:016x} rcv={:016x}{}", rng.next_u64(), rng.next_u64(), gen_clean_answer(rng, &g, prop))),
            k => {
                // matching v5 KISS: RATE (poll above ours), DENY (poll 127), NTS-NAK (authnak), unknown (stratum 0 only)
                let (pl, an) = match k {
                    2 | 3 => (20, 0),
                    4 => (127, 0),
                    5 => (0, 1),
                    _ => (0, 0),
                };
                ops.push(format!("incoming dt=1000000 sts=0000000000000001 rcv=0000000000000002 d.v=5 d.org=match d.st=0 d.rid=0 d.pl={} d.an={} d.mode=4 d.lp=0 d.rx=0000000000000001 d.tx=0000000000000002 d.rd=1 d.rdp=1 d.auth=none d.A=- d.E=- d.U=draft", pl, an));
            }
        }
        for _ in 0..rng.usize(2, 4) {
            ops.push(format!("timer dt=16000000000 des={}", des));
        }
        let mut dummy = 0u64;
        for _ in 0..rng.usize(0, 3) {
            ops.push(format!("timer dt=16000000000 des={}", des));
            ops.push(gen_incoming(rng, &g, prop, &mut dummy));
        }
        return ops;
    }
    if prop == Prop::C33 && !g.nts && rng.chance(1, 6) {
        // 1-3 answered polls, then 7-10 polls without answer: the source must stop being usable exactly at the 8th
        let des = g.min as i64;
        for _ in 0..rng.usize(1, 3) {
            ops.push(format!("timer dt=16000000000 des={}", des));
            ops.push(format!("incoming dt=1000000 sts={:016x} rcv={:016x}{}", rng.next_u64(), rng.next_u64(), gen_clean_answer(rng, &g, prop)));
        }
        for _ in 0..rng.usize(7, 10) {
            ops.push(format!("timer dt=16000000000 des={}", des));
        }
        return ops;
    }
    if (prop == Prop::C11 || prop == Prop::C09) && !g.nts && rng.chance(1, 5) {
        // structured history for the deny clause: some answered polls, then a valid unauthenticated DENY/RSTR answer
        // (sometimes none, sometimes followed by one more usable answer, which clears it), then silence until the
        // source is unreachable and beyond
        let good = rng.usize(0, 3);
        let mut dummy = 0u64;
        let des = g.min as i64;
        for _ in 0..good {
            ops.push(format!("timer dt=16000000000 des={}", des));
            ops.push(format!("incoming dt=1000000 sts={:016x} rcv={:016x}{}", rng.next_u64(), rng.next_u64(), gen_clean_answer(rng, &g, prop)));
        }
        let with_deny = rng.chance(3, 4);
        if with_deny {
            ops.push(format!("timer dt=16000000000 des={}", des));
            let code = if rng.chance(1, 2) { KISS_DENY } else { KISS_RSTR };
            ops.push(format!("incoming dt=1000000 sts=0000000000000001 rcv=0000000000000002 d.v=exp d.org=match d.st=0 d.rid={} d.pl=127 d.an=0 d.mode=4 d.lp=0 d.rx=0000000000000001 d.tx=0000000000000002 d.rd=1 d.rdp=1 d.auth=none d.A=- d.E=- d.U=draft", code));
            // 0-2 further answers that must NOT clear the mark: RATE, NTS-NAK, unknown KISS, a stale answer (previous
            // origin), an answer with a wrong mode, another DENY/RSTR — to the same request or to a new one
            for _ in 0..rng.usize(0, 2) {
                if rng.chance(1, 2) {
                    ops.push(format!("timer dt=16000000000 des={}", des));
                }
                let (st, rid, pl, an, org, mode) = match rng.below(7) {
                    0 | 1 => (0, KISS_RATE, 20, 0, "match", 4),                      // RATE (v5: poll above the last one)
                    2 => (0, KISS_NTSN, 0, 1, "match", 4),                           // NTS-NAK (v5: authnak flag)
                    3 => (0, u32::from_be_bytes(*b"XXXX"), 0, 0, "match", 4),        // unknown KISS
                    4 => (3, 0x7f00_0001, 6, 0, "prev", 4),                          // stale answer
                    5 => (3, 0x7f00_0001, 6, 0, "match", 1),                         // not a server-mode packet
                    _ => (0, if rng.chance(1, 2) { KISS_DENY } else { KISS_RSTR }, 127, 0, "match", 4),
                };
                ops.push(format!("incoming dt=1000000 sts=0000000000000001 rcv=0000000000000002 d.v=exp d.org={} d.st={} d.rid={} d.pl={} d.an={} d.mode={} d.lp=0 d.rx=0000000000000001 d.tx=0000000000000002 d.rd=1 d.rdp=1 d.auth=none d.A=- d.E=- d.U=draft",
                    org, st, rid, pl, an, mode));
            }
            if rng.chance(1, 5) {
                ops.push(format!("timer dt=16000000000 des={}", des));
                ops.push(format!("incoming dt=1000000 sts={:016x} rcv={:016x}{}", rng.next_u64(), rng.next_u64(), gen_clean_answer(rng, &g, prop)));
            }
            if rng.chance(1, 3) {
                // 1-2 answers that ARE accepted (measurement, reach) but leave the source unusable: stratum 16 is never
                // below the local stratum. They are "usable answers" in the property's sense (they clear the deny mark)
                for _ in 0..rng.usize(1, 2) {
                    ops.push(format!("timer dt=16000000000 des={}", des));
                    ops.push(format!("incoming dt=1000000 sts={:016x} rcv={:016x} d.v=exp d.org=match d.st=16 d.rid=2130706433 d.pl={} d.an=0 d.mode=4 d.lp=0 d.rx={:016x} d.tx={:016x} d.rd=1 d.rdp=1 d.auth=none d.A=- d.E=- d.U=draft",
                        rng.next_u64(), rng.next_u64(), des as i8 as u8, rng.next_u64(), rng.next_u64()));
                }
                // then silence until the source is unreachable and beyond
                for _ in 0..rng.usize(8, 11) {
                    ops.push(format!("timer dt=16000000000 des={}", des));
                }
                return ops;
            }
        }
        for _ in 0..rng.usize(3, 11) {
            ops.push(format!("timer dt=16000000000 des={}", des));
            if rng.chance(1, 8) {
                ops.push(gen_incoming(rng, &g, prop, &mut dummy));
            }
        }
        return ops;
    }
    let mut since_timer: u64 = 0;
    let mut i = 0;
    while i < n {
        let des = match rng.below(12) {
            // C10 presupposes the filter's guarantee (desired within the configured limits)
            0 if prop == Prop::C10 => rng.range(g.min as i64, g.max as i64),
            0 => rng.range(-2, 20),
            1 => g.max as i64,
            // C09 / C10: long polls more often, so that the controller's desire can DROP before the answer arrives
            3 | 4 if matches!(prop, Prop::C09 | Prop::C10) => g.max as i64,
            2 => rng.range(g.min as i64, g.max as i64),
            _ => g.min as i64,
        };
        let dt = *rng.pick(&[0u64, 1_000_000_000, 16_000_000_000, 4_999_999_999, 5_000_000_000]);
        ops.push(format!("timer dt={} des={}", dt, des));
        since_timer = 0;
        i += 1;
        if matches!(prop, Prop::C09 | Prop::C10) && rng.chance(1, 3) {
            // the controller's desired interval changes between the poll and its answer (within the configured limits)
            let p = if rng.chance(2, 3) { g.min as i64 } else { rng.range(g.min as i64, g.max as i64) };
            ops.push(format!("desire p={}", p));
            i += 1;
        }
        if matches!(prop, Prop::C07 | Prop::C08 | Prop::C09) && rng.chance(1, 8) {
            // an unauthenticated NTS-NAK (clear-text uid) — inert — followed by the genuine answer within the same poll
            let n_nak = rng.usize(1, 2);
            for _ in 0..n_nak {
                ops.push(format!("incoming dt={} sts=0000000000000001 rcv=0000000000000002 d.v=exp d.org=match d.st=0 d.rid={} d.pl=0 d.an=1 d.mode=4 d.lp=0 d.rx=0000000000000001 d.tx=0000000000000002 d.rd=1 d.rdp=1 d.auth=none d.A=- d.E=- d.U={}draft",
                    rng.below(100_000_000), KISS_NTSN, if g.nts { "uid:match," } else { "" }));
            }
            ops.push(format!("incoming dt={} sts={:016x} rcv={:016x}{}", rng.below(100_000_000), rng.next_u64(), rng.next_u64(), gen_clean_answer(rng, &g, prop)));
            i += n_nak + 1;
            continue;
        }
        if rng.below(100) < answer_rate {
            // 0–3 incoming datagrams for this poll
            let k = match rng.below(10) {
                0 => 2,
                1 => 3,
                _ => 1,
            };
            for _ in 0..k {
                ops.push(gen_incoming(rng, &g, prop, &mut since_timer));
                i += 1;
            }
        } else if rng.chance(1, 4) {
            ops.push(gen_incoming(rng, &g, prop, &mut since_timer));
            i += 1;
        }
    }
    ops
}

/// design-time witness of F-C07: NTPv5 + NTS, unauthenticated answer carrying the request's clear-text uid,
/// stratum 0, authnak; poll 10 (RATE arm) and poll 127 (DENY arm)
fn witness_c07(idx: u64) -> Vec<String> {
    let pl = if idx % 2 == 0 { 10 } else { 127 };
    vec![
        "cfg min=4 max=10 nts=1 proto=v5 lstrat=16 lids=- sid=3232235781 bloom=none stash=100:8".to_string(),
        "timer dt=0 des=4".to_string(),
        format!("incoming dt=1000000 sts=0000000000000001 rcv=0000000000000002 d.v=5 d.org=match d.st=0 d.rid=0 d.pl={} d.an=1 d.mode=4 d.auth=none d.A=- d.E=- d.U=uid:match,draft", pl),
        "timer dt=16000000000 des=4".to_string(),
    ]
}

fn gen_accept(rng: &mut Rng) -> Vec<String> {
    let nl = rng.below(4);
    let lids: Vec<u32> = (0..nl).map(|i| 0x0a00_0001 + i as u32).collect();
    let sid = if !lids.is_empty() && rng.chance(1, 3) { *rng.pick(&lids) } else { 0xc0a8_0105 };
    let rid = if !lids.is_empty() && rng.chance(1, 3) { *rng.pick(&lids) } else { 0x7f00_0001 };
    let lstrat = *rng.pick(&[16u8, 16, 1, 2, 3, 5, 0, 255]);
    let st = match rng.below(6) {
        0 => lstrat as i64,
        1 => (lstrat as i64 - 1).max(0),
        2 => 1,
        3 => 0,
        _ => rng.range(0, 17),
    };
    let reach = *rng.pick(&[0u8, 0, 1, 2, 128, 255, 64]);
    let bl = *rng.pick(&["none", "none", "0", "1"]);
    vec![format!("accept st={} sid={} rid={} bl={} reach={} lstrat={} lids={}", st, sid, rid, bl, reach, lstrat, common::comma_list(&lids))]
}

/// C14: the whole space (cookie length 0..=1024) x (cookies held 1..=8, i.e. gap after taking one 1..=8) x
/// (4 protocol states) x NTS, plus the 4 plain protocol states: one case per point, enumerated by index.
const C14_NTS_POINTS: u64 = 1025 * 8 * 4;
const C14_POINTS: u64 = C14_NTS_POINTS + 4;

fn c14_case(idx: u64) -> Vec<String> {
    let protos = ["v4", "up:8", "upd", "v5"];
    if idx >= C14_NTS_POINTS {
        let p = protos[(idx - C14_NTS_POINTS) as usize % 4];
        return vec![
            format!("cfg min=4 max=10 nts=0 proto={} lstrat=16 lids=- sid=3232235781 bloom=none", p),
            "timer dt=0 des=4".to_string(),
        ];
    }
    let l = idx % 1025;
    let held = (idx / 1025) % 8 + 1;
    let p = protos[((idx / (1025 * 8)) % 4) as usize];
    vec![
        format!("cfg min=4 max=10 nts=1 proto={} lstrat=16 lids=- sid=3232235781 bloom=none stash={}:{}", p, l, held),
        "timer dt=0 des=4".to_string(),
    ]
}

fn stream_prop(stream: &str) -> Prop {
    match stream {
        "c13_incoming" => Prop::C13,
        // byte mode (the model computes the packet record from the datagram bytes): generator and oracle of ...
        "sm_bytes" => Prop::C07,
        "sm_bytes_c13" => Prop::C13,
        "sm_bytes_c08" => Prop::C08,
        "sm_bytes_c09" => Prop::C09,
        "sm_bytes_c10" => Prop::C10,
        "sm_bytes_c11" => Prop::C11,
        "sm_bytes_c12" => Prop::C12,
        "sm_bytes_c33" => Prop::C33,
        "sm_c07" | "c07_witness" => Prop::C07,
        "sm_c08" => Prop::C08,
        "sm_c09" => Prop::C09,
        "sm_c10" => Prop::C10,
        "sm_c11" => Prop::C11,
        "sm_c12" => Prop::C12,
        "c14_exh" | "sm_c14" => Prop::C14,
        // sm_c03: the C33 generator (stratum vs local stratum, loops, Bloom filters: frequent usable <-> unusable
        // transitions), registered under C03 for the order of the controller calls
        "sm_c33" | "c33_accept" => Prop::C33,
        "sm_c03" => Prop::C03,
        other => panic!("unknown VERIF_STREAM {:?}", other),
    }
}

#[test]
fn entry() {
    let stream = std::env::var("VERIF_STREAM").unwrap_or_default();
    let prop = stream_prop(&stream);
    let rt = tokio::runtime::Builder::new_current_thread().enable_time().start_paused(true).build().expect("runtime");
    match stream.as_str() {
        "c07_witness" => common::drive(
            &stream,
            "the two design-time witnesses of F-C07 (NTPv5+NTS, unauthenticated stratum-0 authnak answer with the clear-text uid; poll 10 / poll 127), alternating",
            |_rng, idx, _run| witness_c07(idx),
            |ops, run| exec_case(ops, run, prop, &rt),
        ),
        "c14_exh" => common::drive(
            &stream,
            "EXHAUSTIVE: case i enumerates (cookie length 0..=1024) x (cookies held 1..=8) x (v4, upgrading, upgraded, v5) with NTS, then the 4 plain protocol states; VERIF_N must be >= 32804 for completeness",
            |_rng, idx, _run| c14_case(idx % C14_POINTS),
            |ops, run| exec_case(ops, run, prop, &rt),
        ),
        "c33_accept" => common::drive(
            &stream,
            "unit calls of NtpSourceSnapshot::accept_synchronization: strata around the local stratum, local address lists with/without the source's own id and its reported reference id, Bloom filter none/without/with own id, reach 0 / non-zero",
            |rng, _idx, _run| gen_accept(rng),
            |ops, run| exec_case(ops, run, prop, &rt),
        ),
        _ => common::drive(
            &stream,
            "scripts of 5-60 ops on a real NtpSource (plain/NTS; v4, upgrading, upgraded, v5; limits 0..17): timers with assorted desired intervals and clock advances, answers built from relative descriptions (origin match/prev/off-by-one, uid placement auth/enc/untrusted x match/wrong/short/long/prev, cipher s2c/c2s/other/none, KISS codes, v5 poll requests, upgrade marker, cookies per list, refid responses), replays, late answers, bit flips, truncation, raw junk; non-trivial = at least one timer/incoming executed; distinct by action/decision signature",
            |rng, _idx, _run| gen_script(rng, if prop == Prop::C03 { Prop::C33 } else { prop }),
            |ops, run| exec_case(ops, run, prop, &rt),
        ),
    }
}
