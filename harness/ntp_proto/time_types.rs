//! verification harness module included into `ntp-proto/src/time_types.rs` (guarded hook).
