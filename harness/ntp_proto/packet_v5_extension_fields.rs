//! verification harness module included into `ntp-proto/src/packet/v5/extension_fields.rs` (guarded hook).
