//! verification harness module for the keyset cluster (C26, C27), included into `ntp-proto/src/keyset.rs`
//! through the guarded hook (grandchild of `crate::keyset`, so it sees the private fields of `KeySet` and
//! `KeySetProvider`).
//!
//! Streams (VERIF_STREAM):
//!   c26_rotate — real `KeySetProvider::{new, rotate, get}` + `KeySet::{encode_cookie, decode_cookie}`:
//!                histories 0-5, 0-40 rotations, both AEAD algorithms, a foreign provider, the id-offset
//!                wrap (reached through a stored/loaded file), store -> load with a smaller/larger history ->
//!                rotate (window clause against the history the provider was loaded with), every byte
//!                position of a cookie mutated,
//!                trailing bytes, truncations, raw byte strings
//!   c27_file   — `KeySetProvider::{store, load}`: full round trip, every prefix, header words at boundary
//!                values, byte flips in every header byte and in key bytes; every loaded set is then used
//!                (encode + decode)
//! Op-line syntax: see /verif/lean/Driver/KeySet.lean.  Keys, nonces, ciphertexts and the stored time are
//! chosen by the code and READ BACK into the op line (`key=`, `nonce=`, `ct=`, `time=`).
#![allow(clippy::all, clippy::pedantic)]

#[path = "../common/mod.rs"]
mod common;

use super::super::*;
use common::{hex, kv, unhex, Rng, Run};
use std::collections::{HashMap, HashSet};

const M32: u64 = 1 << 32;

/// key fingerprint of state lines: first 3 bytes + position-weighted 16-bit checksum (same in the driver)
fn fp(k: &[u8]) -> String {
    let mut acc: u64 = 0;
    for (i, b) in k.iter().enumerate() {
        acc = (acc + (i as u64 + 1) * (*b as u64)) % 65536;
    }
    format!("{}{:04x}", hex(&k[..k.len().min(3)]), acc)
}

fn state_line(ks: &KeySet) -> String {
    let fps: Vec<String> = ks.keys.iter().map(|k| fp(k.key_bytes())).collect();
    format!(
        "n={} keys={} off={} prim={}",
        ks.keys.len(),
        common::comma_list(&fps),
        ks.id_offset,
        ks.primary
    )
}

/// drop `k=v` words with the given keys (values read back from the code replace them)
fn strip(op: &str, keys: &[&str]) -> String {
    op.split_whitespace()
        .filter(|w| match w.split_once('=') {
            Some((k, _)) => !keys.contains(&k),
            None => true,
        })
        .collect::<Vec<_>>()
        .join(" ")
}

fn num(w: &[&str], k: &str) -> Option<u64> {
    kv(w, k).and_then(|v| v.parse().ok())
}

struct Slot {
    prov: KeySetProvider,
    gid: u64,
    /// lineage: providers made by `new` start one; a provider loaded from a file continues the lineage of
    /// the provider that stored the file (0 = bytes of unknown origin)
    root: u64,
    rot: u64,
    /// false for a provider loaded from a file whose primary is not the last key: "newest key" and the
    /// rotation window are then not what the property talks about (until the next rotation)
    std_primary: bool,
    /// loaded from the unmodified file stored by (gid, rot at store, history of the storing provider)
    origin: Option<(u64, u64, u64)>,
    newest_key: Vec<u8>,
}

struct Issued {
    gid: u64,
    root: u64,
    std: bool,
    rot: u64,
    alg: u16,
    s2c: Vec<u8>,
    c2s: Vec<u8>,
    wf: bool,
    bytes: Vec<u8>,
}

struct World {
    slots: HashMap<u64, Slot>,
    issued: HashMap<u64, Issued>,
    next_gen: u64,
    file: Vec<u8>,
    file_meta: Option<(u64, u64, u64, Vec<Vec<u8>>, u32, u32, u64)>, // gid, rot, history, keys, off, prim, root
    nonces: HashSet<Vec<u8>>,
    cts: HashSet<Vec<u8>>,
    key: String,
    nontrivial: bool,
}

fn make_cookie(alg: u16, s2c: &[u8], c2s: &[u8]) -> Option<DecodedServerCookie> {
    fn cipher(b: &[u8]) -> Option<Box<dyn Cipher>> {
        match b.len() {
            32 => Some(Box::new(AesSivCmac256::try_from(b).ok()?)),
            64 => Some(Box::new(AesSivCmac512::try_from(b).ok()?)),
            _ => None,
        }
    }
    Some(DecodedServerCookie {
        algorithm: AeadAlgorithm::from(alg),
        s2c: cipher(s2c)?,
        c2s: cipher(c2s)?,
    })
}

fn cookie_wf(alg: u16, s2c: &[u8], c2s: &[u8]) -> bool {
    (alg == 15 && s2c.len() == 32 && c2s.len() == 32) || (alg == 17 && s2c.len() == 64 && c2s.len() == 64)
}

fn decoded_line(r: &Result<DecodedServerCookie, DecryptError>) -> String {
    match r {
        Ok(c) => format!(
            "ok alg={} s2c={} c2s={}",
            u16::from(c.algorithm),
            hex(c.s2c.key_bytes()),
            hex(c.c2s.key_bytes())
        ),
        Err(_) => "err".to_string(),
    }
}

/// what the property requires of decoding the (unmodified) cookie `tag` at slot `p` now:
/// Some(true) must decode to the original, Some(false) must fail, None: not determined by the property
fn expect_valid(world: &World, p: u64, tag: u64) -> Option<bool> {
    let slot = world.slots.get(&p)?;
    let c = world.issued.get(&tag)?;
    if !c.wf {
        return None;
    }
    let h = slot.prov.history as u64;
    if c.gid == slot.gid {
        if slot.rot == c.rot {
            return Some(true);
        }
        if !c.std {
            return None;
        }
        return Some(slot.rot - c.rot <= h);
    }
    if let Some((g, rot_s, h_s)) = slot.origin {
        if c.gid == g && c.rot <= rot_s && c.std {
            // cookie issued by the provider that stored the file this provider was loaded from
            let age_at_store = rot_s - c.rot;
            if age_at_store > h_s {
                return Some(false); // its key was already rotated out when the file was written
            }
            if slot.rot == 0 {
                // gap between the reload and the first rotation: `load` restores exactly the stored key set
                // (C27: cookies issued before the restart stay valid); the window of the NEW configuration is
                // applied by rotations, so every key of the file still decodes here, whatever h' is
                return Some(true);
            }
            // from the first rotation after the reload on, only the newest h'+1 keys may decode, h' being the
            // history the provider was LOADED with (smaller or larger than the storing provider's)
            return Some(age_at_store + slot.rot <= h);
        }
    }
    if slot.root != 0 && c.root != 0 && slot.root != c.root {
        return Some(false); // keys of another lineage: foreign
    }
    None // related providers (shared keys through a file): compared with the model only
}

fn check_decode(world: &World, run: &mut Run, p: u64, tag: u64, kind: &str, r: &Result<DecodedServerCookie, DecryptError>, must_fail: bool) {
    let Some(c) = world.issued.get(&tag) else { return };
    if must_fail {
        if r.is_ok() {
            run.oracle_fail("tamper_accepted", &format!("kind={}", kind), &format!("modified cookie (tag {}) decoded", tag));
        }
        return;
    }
    match expect_valid(world, p, tag) {
        Some(true) => match r {
            Ok(d) => {
                if u16::from(d.algorithm) != c.alg || d.s2c.key_bytes() != &c.s2c[..] || d.c2s.key_bytes() != &c.c2s[..] {
                    run.oracle_fail("roundtrip_content", &format!("kind={}", kind), &format!("cookie tag {} decoded to other keys/algorithm", tag));
                }
            }
            Err(_) => {
                let slot = &world.slots[&p];
                run.oracle_fail(
                    "window_valid_rejected",
                    &format!("kind={} age={} history={}", kind, slot.rot as i64 - c.rot as i64, slot.prov.history),
                    &format!("cookie tag {} issued under a key still in the window failed to decode", tag),
                );
            }
        },
        Some(false) => {
            if r.is_ok() {
                let slot = &world.slots[&p];
                run.oracle_fail(
                    "window_stale_accepted",
                    &format!("kind={} history={} samegen={}", kind, slot.prov.history, (slot.gid == c.gid) as u8),
                    &format!("cookie tag {} outside the key window (or of foreign keys) decoded", tag),
                );
            }
        }
        None => {}
    }
}

/// the bytes a `load` line refers to (identical to `fileOf` of the driver)
fn file_of(world: &World, w: &[&str]) -> Vec<u8> {
    let mut b = match kv(w, "b") {
        Some(h) => unhex(h).expect("hex"),
        None => world.file.clone(),
    };
    for (k, off, width) in [("time", 0usize, 8usize), ("off", 8, 4), ("prim", 12, 4), ("len", 16, 4)] {
        if let Some(v) = num(w, k) {
            if b.len() >= off + width {
                if width == 8 {
                    b[off..off + 8].copy_from_slice(&v.to_be_bytes());
                } else {
                    b[off..off + 4].copy_from_slice(&(v as u32).to_be_bytes());
                }
            }
        }
    }
    if let (Some(i), Some(x)) = (num(w, "i"), num(w, "x")) {
        if (i as usize) < b.len() {
            b[i as usize] ^= x as u8;
        }
    }
    if let Some(n) = num(w, "n") {
        b.truncate(n as usize);
    }
    b
}

fn exec_case(ops: &[String], run: &mut Run) {
    let mut world = World {
        slots: HashMap::new(),
        issued: HashMap::new(),
        next_gen: 1,
        file: vec![],
        file_meta: None,
        nonces: HashSet::new(),
        cts: HashSet::new(),
        key: String::new(),
        nontrivial: false,
    };
    for op in ops {
        run.begin_op(op);
        let w: Vec<&str> = op.split_whitespace().collect();
        let p = num(&w, "p").unwrap_or(0);
        match w.first().copied() {
            Some("new") => {
                let h = num(&w, "h").unwrap_or(0) as usize;
                let prov = KeySetProvider::new(h);
                let kb = prov.current.keys[0].key_bytes().to_vec();
                let line = state_line(&prov.get());
                let gid = world.next_gen;
                world.next_gen += 1;
                world.slots.insert(p, Slot { prov, gid, root: gid, rot: 0, std_primary: true, origin: None, newest_key: kb.clone() });
                world.key.push_str(&format!("N{}", h));
                run.end_op_as(&format!("{} key={}", strip(op, &["key"]), hex(&kb)), &line);
            }
            Some("rotate") => {
                let Some(slot) = world.slots.get_mut(&p) else { run.end_op("bad-op"); continue };
                let before_len = slot.prov.current.keys.len();
                slot.prov.rotate();
                slot.rot += 1;
                slot.std_primary = true;
                let ks = slot.prov.get();
                let kb = ks.keys[ks.keys.len() - 1].key_bytes().to_vec();
                slot.newest_key = kb.clone();
                // property, directly: the newest key is primary, at most history+1 keys are kept
                if ks.primary as usize != ks.keys.len() - 1 {
                    run.oracle_fail("newest_not_primary", "", &format!("after rotate primary={} of {} keys", ks.primary, ks.keys.len()));
                }
                if ks.keys.len() != (before_len.min(slot.prov.history) + 1) {
                    run.oracle_fail("window_size", "", &format!("{} keys kept with history {} (had {})", ks.keys.len(), slot.prov.history, before_len));
                }
                run.hit(if before_len > slot.prov.history { "rotate-drop" } else { "rotate-grow" });
                world.key.push('R');
                let line = state_line(&ks);
                run.end_op_as(&format!("{} key={}", strip(op, &["key"]), hex(&kb)), &line);
            }
            Some("encode") => {
                let (Some(tag), Some(alg)) = (num(&w, "tag"), num(&w, "alg")) else { run.end_op("bad-op"); continue };
                let s2c = unhex(kv(&w, "s2c").unwrap_or("-")).expect("hex");
                let c2s = unhex(kv(&w, "c2s").unwrap_or("-")).expect("hex");
                let (Some(slot), Some(cookie)) = (world.slots.get(&p), make_cookie(alg as u16, &s2c, &c2s)) else {
                    run.end_op("bad-op");
                    continue;
                };
                let base = strip(op, &["nonce", "ct"]);
                run.begin_op(&base);
                let ks = slot.prov.get();
                let bytes = ks.encode_cookie(&cookie); // may panic: observation `panic` for this op
                let nonce = bytes[6..22].to_vec();
                let ct = bytes[22..].to_vec();
                let wf = cookie_wf(alg as u16, &s2c, &c2s);
                // ideal-AEAD hygiene of the real cipher: nonces and ciphertexts never repeat
                if !world.nonces.insert(nonce.clone()) || !world.cts.insert(ct.clone()) {
                    run.oracle_fail("aead_not_fresh", "", "nonce or ciphertext repeated within a case");
                }
                // property, directly: issued under the newest key
                if slot.std_primary && !slot.newest_key.is_empty() {
                    let newest = AesSivCmac512::try_from(&slot.newest_key[..]).unwrap();
                    let mut pt = (alg as u16).to_be_bytes().to_vec();
                    pt.extend_from_slice(&s2c);
                    pt.extend_from_slice(&c2s);
                    match newest.decrypt(&nonce, &ct, &[]) {
                        Ok(got) if got == pt => {}
                        _ => run.oracle_fail("not_issued_under_newest", "", &format!("cookie tag {} does not decrypt under the newest key", tag)),
                    }
                    // confidentiality smoke test: the session keys do not appear in the cookie
                    if s2c.len() >= 32 && bytes.windows(16).any(|win| win == &s2c[..16] || win == &c2s[..16]) {
                        run.oracle_fail("plaintext_visible", "", "session key bytes visible in the cookie");
                    }
                }
                world.issued.insert(tag, Issued { gid: slot.gid, root: slot.root, std: slot.std_primary, rot: slot.rot, alg: alg as u16, s2c, c2s, wf, bytes: bytes.clone() });
                run.hit(if alg == 15 { "encode-256" } else if alg == 17 { "encode-512" } else { "encode-other" });
                world.key.push('e');
                run.end_op_as(&format!("{} nonce={} ct={}", base, hex(&nonce), hex(&ct)), &hex(&bytes));
            }
            Some(kind @ ("dec" | "mut" | "ext" | "trunc")) => {
                let Some(tag) = num(&w, "tag") else { run.end_op("bad-op"); continue };
                let (Some(slot), Some(c)) = (world.slots.get(&p), world.issued.get(&tag)) else { run.end_op("bad-op"); continue };
                let mut b = c.bytes.clone();
                let mut must_fail = false;
                match kind {
                    "mut" => {
                        let (Some(i), Some(x)) = (num(&w, "i"), num(&w, "x")) else { run.end_op("bad-op"); continue };
                        if (i as usize) < b.len() && (x as u8) != 0 {
                            b[i as usize] ^= x as u8;
                            must_fail = true;
                        }
                    }
                    "ext" => b.extend_from_slice(&unhex(kv(&w, "extra").unwrap_or("-")).expect("hex")),
                    "trunc" => {
                        let n = num(&w, "n").unwrap_or(0) as usize;
                        if n < b.len() {
                            must_fail = true;
                        }
                        b.truncate(n);
                    }
                    _ => {}
                }
                let r = slot.prov.get().decode_cookie(&b);
                check_decode(&world, run, p, tag, kind, &r, must_fail);
                match (&r, kind) {
                    (Ok(_), "dec") => {
                        world.nontrivial = true;
                        run.hit("dec-ok");
                        world.key.push('d');
                    }
                    (Err(_), "dec") => {
                        run.hit("dec-err");
                        world.key.push('x');
                    }
                    (Ok(_), k) => run.hit(&format!("{}-ok", k)),
                    (Err(_), k) => run.hit(&format!("{}-err", k)),
                }
                run.end_op(&decoded_line(&r));
            }
            Some("raw") => {
                let Some(slot) = world.slots.get(&p) else { run.end_op("bad-op"); continue };
                let b = unhex(kv(&w, "b").unwrap_or("-")).expect("hex");
                let r = slot.prov.get().decode_cookie(&b);
                if r.is_ok() && !world.issued.values().any(|c| b.starts_with(&c.bytes)) {
                    run.oracle_fail("forged_accepted", "", "byte string that is no issued cookie decoded");
                }
                run.hit(if r.is_ok() { "raw-ok" } else { "raw-err" });
                run.end_op(&decoded_line(&r));
            }
            Some("store") => {
                let Some(slot) = world.slots.get(&p) else { run.end_op("bad-op"); continue };
                let mut out = vec![];
                slot.prov.store(&mut out).expect("store into a Vec");
                let time = u64::from_be_bytes(out[0..8].try_into().unwrap());
                let ks = slot.prov.get();
                world.file_meta = Some((
                    slot.gid,
                    slot.rot,
                    slot.prov.history as u64,
                    ks.keys.iter().map(|k| k.key_bytes().to_vec()).collect(),
                    ks.id_offset,
                    ks.primary,
                    slot.root,
                ));
                world.file = out.clone();
                world.key.push('S');
                run.end_op_as(&format!("{} time={}", strip(op, &["time"]), time), &hex(&out));
            }
            Some("load") => {
                let h = num(&w, "h").unwrap_or(0) as usize;
                let b = file_of(&world, &w);
                let modified = ["b", "time", "off", "prim", "len", "i", "x"].iter().any(|k| kv(&w, k).is_some());
                let prefix_only = !modified && kv(&w, "n").is_some();
                let full = !modified && b.len() == world.file.len() && !world.file.is_empty();
                let r = KeySetProvider::load(&mut &b[..], h); // a panic here is the observation `panic`
                let obs = match &r {
                    Ok((prov, time)) => {
                        let t = time.duration_since(std::time::SystemTime::UNIX_EPOCH).map(|d| d.as_secs()).unwrap_or(0);
                        format!("ok {} time={}", state_line(&prov.get()), t)
                    }
                    Err(e) => match e.kind() {
                        std::io::ErrorKind::UnexpectedEof => "err:Eof".to_string(),
                        std::io::ErrorKind::Other => "err:Other".to_string(),
                        k => format!("err:{:?}", k),
                    },
                };
                // the property, directly
                if prefix_only && !full {
                    if r.is_ok() {
                        run.oracle_fail("prefix_loaded", &format!("n={} of={}", b.len(), world.file.len()), "a strict prefix of a stored file loaded");
                    }
                    run.hit("load-prefix");
                }
                match r {
                    Ok((prov, time)) => {
                        let ks = prov.get();
                        if ks.primary as usize >= ks.keys.len() {
                            run.oracle_fail(
                                "loaded_unusable",
                                &format!("primary_eq_len={} len={}", (ks.primary as usize == ks.keys.len()) as u8, ks.keys.len()),
                                &format!("loaded a key set with primary={} but {} keys: the first encode_cookie indexes out of bounds", ks.primary, ks.keys.len()),
                            );
                        }
                        let mut origin = None;
                        let root = if kv(&w, "b").is_some() { 0 } else { world.file_meta.as_ref().map(|m| m.6).unwrap_or(0) };
                        if full {
                            let (g, rot, hs, keys, off, prim, _) = world.file_meta.clone().unwrap();
                            let same = ks.keys.len() == keys.len()
                                && ks.keys.iter().zip(keys.iter()).all(|(a, b)| a.key_bytes() == &b[..])
                                && ks.id_offset == off
                                && ks.primary == prim;
                            let t = time.duration_since(std::time::SystemTime::UNIX_EPOCH).map(|d| d.as_secs()).unwrap_or(0);
                            if !same || t != u64::from_be_bytes(world.file[0..8].try_into().unwrap()) {
                                run.oracle_fail("restore_differs", "", "loading the stored file gave another key set");
                            }
                            origin = Some((g, rot, hs));
                            run.hit("load-full-ok");
                            world.nontrivial = true;
                        } else {
                            run.hit("load-modified-ok");
                        }
                        let std_primary = ks.keys.len() > 0 && ks.primary as usize == ks.keys.len() - 1;
                        let newest = if std_primary { ks.keys[ks.keys.len() - 1].key_bytes().to_vec() } else { vec![] };
                        let gid = world.next_gen;
                        world.next_gen += 1;
                        world.slots.insert(p, Slot { prov, gid, root, rot: 0, std_primary, origin, newest_key: newest });
                        world.key.push('L');
                    }
                    Err(_) => {
                        if full {
                            run.oracle_fail("restore_failed", "", "the stored file did not load");
                        }
                        run.hit(&format!("load-{}", obs));
                        world.key.push('E');
                    }
                }
                run.end_op(&obs);
            }
            _ => run.end_op("bad-op"),
        }
    }
    if world.nontrivial {
        let k = world.key.clone();
        run.nontrivial(&k);
    }
}

// ---------------------------------------------------------------------------------------- generators

fn gen_keys(rng: &mut Rng, n: usize) -> String {
    hex(&rng.bytes(n))
}

fn gen_encode(rng: &mut Rng, p: u64, tag: u64) -> String {
    let (alg, l1, l2) = match rng.below(24) {
        0 => (15, 64, 64),  // algorithm / key width mismatch: encodes, never decodes
        1 => (17, 32, 32),
        2 => (15, 32, 64),
        3 => (*rng.pick(&[0u64, 16, 18, 65535]), 32, 32), // unknown algorithm
        x if x % 2 == 0 => (15, 32, 32),
        _ => (17, 64, 64),
    };
    format!("encode p={} tag={} alg={} s2c={} c2s={}", p, tag, alg, gen_keys(rng, l1), gen_keys(rng, l2))
}

fn xor_val(rng: &mut Rng) -> u64 {
    match rng.below(4) {
        0 => 1,
        1 => 0x80,
        2 => 0xff,
        _ => 1 + rng.below(255),
    }
}

/// every byte position of cookie `tag` (length `len`) mutated once
fn sweep(rng: &mut Rng, ops: &mut Vec<String>, p: u64, tag: u64, len: usize) {
    for i in 0..len {
        ops.push(format!("mut p={} tag={} i={} x={}", p, tag, i, xor_val(rng)));
    }
}

fn cookie_len(op: &str) -> usize {
    // id 4 + len 2 + nonce 16 + (2 + s2c + c2s) + tag 16
    let w: Vec<&str> = op.split_whitespace().collect();
    let l = |k| kv(&w, k).map(|h| if h == "-" { 0 } else { h.len() / 2 }).unwrap_or(0);
    40 + l("s2c") + l("c2s")
}

fn gen_rotate_case(rng: &mut Rng, idx: u64, _run: &Run) -> Vec<String> {
    let mut ops = vec![];
    let mut h = match idx % 8 {
        0 => 0,
        1 => 1,
        2 => 2 + rng.below(4), // reload with a SMALLER history below
        _ => rng.below(6),
    };
    ops.push(format!("new p=0 h={}", h));
    let foreign = rng.chance(1, 2);
    if foreign {
        ops.push(format!("new p=1 h={}", rng.below(6)));
    }
    let mut p = 0u64;
    let mut tag = 0u64;
    let mut tags: Vec<(u64, u64, usize)> = vec![]; // tag, rotation index at issue, cookie length
    let reload = idx % 8 == 2 || idx % 8 == 3 || rng.chance(1, 6);
    if reload {
        // stale-key-count changed across a restart: store, load with a different history, rotate.
        // One cookie per key, decoded in the gap (every stored key still valid) and after each of the next
        // h'+2 rotations (only the newest h'+1 keys may decode).
        let smaller = idx % 8 == 2 || (idx % 8 != 3 && h > 0 && rng.chance(1, 2));
        let h2 = if smaller && h > 0 { rng.below(h) } else { h + 1 + rng.below(3) };
        let k = match rng.below(3) {
            0 => h,
            1 => h + 1 + rng.below(2),
            _ => rng.below(h + 3),
        };
        for _ in 0..k {
            let e = gen_encode(rng, 0, tag);
            tags.push((tag, 0, cookie_len(&e)));
            ops.push(e);
            tag += 1;
            ops.push("rotate p=0".to_string());
        }
        let e = gen_encode(rng, 0, tag);
        tags.push((tag, 0, cookie_len(&e)));
        ops.push(e);
        tag += 1;
        ops.push("store p=0".to_string());
        ops.push(format!("load p=2 h={}", h2));
        for (t, _, _) in tags.iter() {
            ops.push(format!("dec p=2 tag={}", t));
        }
        for _ in 0..(h2 + 2).min(8) {
            let e = gen_encode(rng, 2, tag);
            tags.push((tag, 0, cookie_len(&e)));
            ops.push(e);
            tag += 1;
            ops.push("rotate p=2".to_string());
            for (t, _, _) in tags.iter() {
                ops.push(format!("dec p=2 tag={}", t));
            }
        }
        p = 2;
        h = h2;
    } else if rng.chance(1, 5) {
        // id-offset wrap: continue from a stored file whose offset word is just below 2^32
        for _ in 0..rng.below(h + 2) {
            ops.push("rotate p=0".to_string());
        }
        ops.push("store p=0".to_string());
        let off = M32 - 1 - rng.below(h + 4);
        ops.push(format!("load p=2 h={} off={}", h, off));
        p = 2;
    }
    let total_rot = match rng.below(4) {
        0 => rng.below(4),
        1 => h + rng.below(3),
        _ => rng.below(41),
    };
    let mut swept = false;
    for r in 0..=total_rot {
        // issue
        let n_enc = if rng.chance(2, 3) { 1 } else { rng.below(3) };
        for _ in 0..n_enc {
            let e = gen_encode(rng, p, tag);
            let l = cookie_len(&e);
            ops.push(e);
            tags.push((tag, r, l));
            if rng.chance(1, 2) {
                ops.push(format!("dec p={} tag={}", p, tag));
            }
            tag += 1;
        }
        if foreign && rng.chance(1, 6) {
            let e = gen_encode(rng, 1, tag);
            let l = cookie_len(&e);
            ops.push(e);
            ops.push(format!("dec p={} tag={}", p, tag)); // foreign cookie at our provider
            ops.push(format!("dec p=1 tag={}", tag));
            if let Some((t, _, _)) = tags.last() {
                ops.push(format!("dec p=1 tag={}", t)); // our cookie at the foreign provider
            }
            let _ = l;
            tag += 1;
        }
        // decode cookies at the window boundary: age h (last valid) and h+1 (first invalid), plus random
        for (t, r0, _) in tags.iter() {
            let age = r - r0;
            if age == h || age == h + 1 || rng.chance(1, 12) {
                ops.push(format!("dec p={} tag={}", p, t));
            }
        }
        // tampering
        if !tags.is_empty() && rng.chance(1, 3) {
            let (t, _, l) = *rng.pick(&tags);
            match rng.below(5) {
                0 if !swept => {
                    swept = true;
                    sweep(rng, &mut ops, p, t, l);
                }
                1 => {
                    let k = 1 + rng.usize(0, 7);
                    ops.push(format!("ext p={} tag={} extra={}", p, t, hex(&rng.bytes(k))));
                }
                2 => ops.push(format!("trunc p={} tag={} n={}", p, t, match rng.below(4) {
                    0 => l - 1,
                    1 => 22,
                    2 => 21,
                    _ => rng.usize(0, l),
                })),
                3 => {
                    // a raw string with plausible id and length words
                    let mut b = rng.bytes(l);
                    let id = (r as u32).to_be_bytes();
                    b[0..4].copy_from_slice(&id);
                    b[4..6].copy_from_slice(&((l - 22) as u16).to_be_bytes());
                    ops.push(format!("raw p={} b={}", p, hex(&b)));
                }
                _ => {
                    let i = rng.usize(0, l - 1);
                    ops.push(format!("mut p={} tag={} i={} x={}", p, t, i, xor_val(rng)));
                }
            }
        }
        if r < total_rot {
            ops.push(format!("rotate p={}", p));
            if foreign && rng.chance(1, 4) {
                ops.push("rotate p=1".to_string());
            }
        }
    }
    if !swept {
        if let Some(&(t, _, l)) = tags.last() {
            sweep(rng, &mut ops, p, t, l);
        }
    }
    // raw garbage of boundary lengths
    for l in [0usize, 21, 22, 23, 104] {
        if rng.chance(1, 3) {
            ops.push(format!("raw p={} b={}", p, hex(&rng.bytes(l))));
        }
    }
    ops
}

fn gen_file_case(rng: &mut Rng, idx: u64, _run: &Run) -> Vec<String> {
    let mut ops = vec![];
    // design-time witnesses first (DESIGN §5, F-C27): a 20-byte file with len = 0, primary = 0 ...
    if idx == 0 {
        ops.push(format!("load p=0 h=3 b={}", hex(&[0u8; 20])));
        ops.push(gen_encode(rng, 0, 0));
        return ops;
    }
    // ... and a stored file whose len word is corrupted down to primary
    if idx == 1 {
        ops.push("new p=0 h=3".to_string());
        ops.push("rotate p=0".to_string());
        ops.push("rotate p=0".to_string());
        ops.push("store p=0".to_string());
        ops.push("load p=1 h=3 len=2".to_string());
        ops.push(gen_encode(rng, 1, 0));
        return ops;
    }
    // time word that does not fit a SystemTime (found while modelling `load`)
    if idx == 2 {
        ops.push("new p=0 h=1".to_string());
        ops.push("store p=0".to_string());
        ops.push("load p=1 h=1 time=9223372036854775807".to_string());
        ops.push("load p=1 h=1 time=9223372036854775808".to_string());
        return ops;
    }
    let h = rng.below(6);
    ops.push(format!("new p=0 h={}", h));
    let rot = match rng.below(3) {
        0 => 0,
        1 => rng.below(h + 3),
        _ => rng.below(9),
    };
    let mut tag = 0u64;
    for r in 0..rot {
        if rng.chance(1, 2) {
            ops.push(gen_encode(rng, 0, tag));
            tag += 1;
        }
        ops.push("rotate p=0".to_string());
        let _ = r;
    }
    ops.push(gen_encode(rng, 0, tag));
    tag += 1;
    ops.push("store p=0".to_string());
    let nkeys = (rot.min(h) + 1) as usize;
    let flen = 20 + 64 * nkeys;
    // restart: cookies issued before stay valid; new cookies work; rotation goes on
    let h2 = if rng.chance(3, 4) { h } else { rng.below(6) };
    ops.push(format!("load p=1 h={}", h2));
    for t in 0..tag {
        ops.push(format!("dec p=1 tag={}", t));
    }
    ops.push(gen_encode(rng, 1, tag));
    ops.push(format!("dec p=1 tag={}", tag));
    ops.push(format!("dec p=0 tag={}", tag)); // and the still-running old provider accepts the new cookie
    tag += 1;
    if rng.chance(1, 2) {
        ops.push("rotate p=1".to_string());
        for t in 0..tag {
            ops.push(format!("dec p=1 tag={}", t));
        }
    }
    // crash points: every prefix for small files, boundaries + samples otherwise
    let exhaustive = nkeys <= 2 || idx % 16 == 3;
    for n in 0..flen {
        let boundary = n <= 24 || n + 2 >= flen || (n >= 20 && ((n - 20) % 64 <= 1 || (n - 20) % 64 == 63));
        if exhaustive || boundary || rng.chance(1, 16) {
            ops.push(format!("load p=2 h={} n={}", h, n));
        }
    }
    ops.push(format!("load p=2 h={} n={}", h, flen));
    // header words at boundary values; every loaded set is then used
    let n = nkeys as u64;
    let lens = [0, 1, n.saturating_sub(1), n, n + 1, 65536, M32 - 1];
    let prims = [0, n.saturating_sub(1), n, n + 1, M32 - 1];
    let offs = [0, 1, 1 << 31, M32 - 2, M32 - 1];
    let times = [0u64, 1, (1 << 63) - 1, 1 << 63, u64::MAX];
    for _ in 0..rng.usize(4, 10) {
        let mut line = format!("load p=3 h={}", h);
        let mut any = false;
        if rng.chance(1, 2) {
            line.push_str(&format!(" prim={}", rng.pick(&prims)));
            any = true;
        }
        if rng.chance(1, 2) {
            line.push_str(&format!(" len={}", rng.pick(&lens)));
            any = true;
        }
        if rng.chance(1, 4) {
            line.push_str(&format!(" off={}", rng.pick(&offs)));
            any = true;
        }
        if rng.chance(1, 4) || !any {
            line.push_str(&format!(" time={}", rng.pick(&times)));
        }
        if rng.chance(1, 5) {
            // a shorter body too (keys cut off)
            line.push_str(&format!(" n={}", 20 + 64 * rng.below(n + 1)));
        }
        ops.push(line);
        ops.push(gen_encode(rng, 3, tag));
        ops.push(format!("dec p=3 tag={}", tag));
        ops.push(format!("dec p=3 tag={}", tag - 1));
        tag += 1;
    }
    // prim == len on an otherwise intact file, explicitly (the F-C27 family)
    ops.push(format!("load p=3 h={} prim={}", h, n));
    ops.push(gen_encode(rng, 3, tag));
    tag += 1;
    // byte flips: every header byte, sampled key bytes
    for i in 0..20 {
        if rng.chance(1, 2) {
            ops.push(format!("load p=4 h={} i={} x={}", h, i, xor_val(rng)));
            ops.push(gen_encode(rng, 4, tag));
            ops.push(format!("dec p=4 tag={}", tag));
            tag += 1;
        }
    }
    for _ in 0..rng.usize(2, 8) {
        let i = rng.usize(20, flen - 1);
        ops.push(format!("load p=4 h={} i={} x={}", h, i, xor_val(rng)));
        for t in 0..tag.min(3) {
            ops.push(format!("dec p=4 tag={}", t));
        }
        ops.push(gen_encode(rng, 4, tag));
        ops.push(format!("dec p=4 tag={}", tag));
        tag += 1;
    }
    // unrelated bytes
    for l in [0usize, 19, 20, 21, 84] {
        if rng.chance(1, 3) {
            ops.push(format!("load p=5 h={} b={}", h, hex(&rng.bytes(l))));
        }
    }
    ops
}

#[test]
fn entry() {
    let stream = std::env::var("VERIF_STREAM").unwrap_or_default();
    match stream.as_str() {
        "c26_rotate" => common::drive(
            "c26_rotate",
            "KeySetProvider new/rotate (history 0-5, 0-40 rotations, foreign provider, id-offset wrap via a loaded file, store -> load with a SMALLER or LARGER history -> rotate with every key's cookie decoded in the gap and after each rotation), encode_cookie for both algorithms (+ ill-formed), decode at the window boundary, one full single-byte mutation sweep per case, trailing bytes, truncations, raw strings; non-trivial = at least one unmodified cookie decoded; distinct by op-kind string",
            gen_rotate_case,
            exec_case,
        ),
        "c27_file" => common::drive(
            "c27_file",
            "store then load: full file (restart: old cookies decoded, new issued, rotation continued), every prefix (exhaustive for <= 2 keys, boundaries + samples otherwise), header words at boundary values, flips in header and key bytes, each loaded set used (encode + decode); witnesses first; non-trivial = a stored file was restored; distinct by op-kind string",
            gen_file_case,
            exec_case,
        ),
        other => panic!("unknown VERIF_STREAM {:?}", other),
    }
}
