//! verification harness module `whole` (stream `steer_whole`; C01, C02, and the composition of C03/C04/C06's
//! models), included into `ntp-proto/src/algorithm/kalman/mod.rs` through the dispatcher
//! `algorithm_kalman.rs` (guarded hook).
//!
//! A real `KalmanClockController` over a recording clock is driven with 1–5 sources through long histories
//! (`add_source`, `source_update`, `source_message` with hand-made `SourceSnapshot`s, `time_update`,
//! `remove_source`).  Nothing is read back for the model except the two things Rust leaves unspecified: the
//! iteration order of the controller's `HashMap` after an insert/remove (`order=`) and the timestamp the clock
//! returns from `set_frequency` (`ft=`, chosen by the harness).  The model (`Model/Controller`) computes
//! `select`, `combine`, the steering decision and the bookkeeping itself.
//!
//! Compared per op, bit for bit: EVERY `NtpClock` call with every argument (`disable`, `step:<raw>:<s>:<ns>`,
//! `setfreq:<bits>`, `err:<dispersion raw>:<delay raw>`, `status:<leap>`), how the op ended, the four steering
//! fields, the returned `InternalStateUpdate` (source message, used sources, the written `TimeSnapshot`
//! fields, presence of `next_update`) and the stored state of every source (in iteration order).
//!
//! The histories are generated CLOSED LOOP: the generator runs its own controller instance to see the steps
//! and frequency changes and moves the simulated "true" offset accordingly, so that runs converge, slew,
//! steer the frequency, and diverge again when the world jumps.
#![allow(clippy::all, clippy::pedantic)]

#[path = "../common/mod.rs"]
mod common;

use super::super::matrix::{Matrix, Vector};
use super::super::*;
use crate::config::StepThreshold;
use common::{f64hex, f64unhex, kv, Rng, Run};
use std::panic::{catch_unwind, AssertUnwindSafe};
use std::sync::{Arc, Mutex};

#[derive(Debug, Clone)]
enum Call {
    Disable,
    Step(NtpDuration),
    SetFreq(f64),
    Err(NtpDuration, NtpDuration),
    Status(NtpLeapIndicator),
}

#[derive(Debug, Default)]
struct Shared {
    log: Vec<Call>,
    ft: u64,
}

#[derive(Debug, Clone)]
struct RecClock {
    sh: Arc<Mutex<Shared>>,
    kernel_freq: f64,
}

impl NtpClock for RecClock {
    type Error = std::io::Error;
    fn now(&self) -> Result<NtpTimestamp, Self::Error> {
        Ok(NtpTimestamp::from_fixed_int(self.sh.lock().unwrap().ft))
    }
    fn set_frequency(&self, freq: f64) -> Result<NtpTimestamp, Self::Error> {
        let mut s = self.sh.lock().unwrap();
        s.log.push(Call::SetFreq(freq));
        Ok(NtpTimestamp::from_fixed_int(s.ft))
    }
    fn get_frequency(&self) -> Result<f64, Self::Error> {
        Ok(self.kernel_freq)
    }
    fn step_clock(&self, offset: NtpDuration) -> Result<NtpTimestamp, Self::Error> {
        let mut s = self.sh.lock().unwrap();
        s.log.push(Call::Step(offset));
        Ok(NtpTimestamp::from_fixed_int(s.ft))
    }
    fn disable_ntp_algorithm(&self) -> Result<(), Self::Error> {
        self.sh.lock().unwrap().log.push(Call::Disable);
        Ok(())
    }
    fn error_estimate_update(&self, e: NtpDuration, m: NtpDuration) -> Result<(), Self::Error> {
        self.sh.lock().unwrap().log.push(Call::Err(e, m));
        Ok(())
    }
    fn status_update(&self, l: NtpLeapIndicator) -> Result<(), Self::Error> {
        self.sh.lock().unwrap().log.push(Call::Status(l));
        Ok(())
    }
}

fn raw(d: NtpDuration) -> i64 {
    let (mut lo, mut hi) = (i64::MIN as i128, i64::MAX as i128);
    while lo < hi {
        let mid = (lo + hi).div_euclid(2);
        if NtpDuration::from_fixed_int(mid as i64) < d {
            lo = mid + 1;
        } else {
            hi = mid;
        }
    }
    lo as i64
}

fn dur(r: i64) -> NtpDuration {
    NtpDuration::from_fixed_int(r)
}

fn ts_raw(t: NtpTimestamp) -> u64 {
    u64::from_be_bytes(t.to_bits())
}

fn sat_ops() -> bool {
    static SAT: std::sync::OnceLock<bool> = std::sync::OnceLock::new();
    *SAT.get_or_init(|| {
        let a = catch_unwind(|| dur(i64::MIN).abs());
        let n = catch_unwind(|| -dur(i64::MIN));
        match (a, n) {
            (Ok(a), Ok(n)) if a == dur(i64::MAX) && n == dur(i64::MAX) => true,
            (Err(_), Err(_)) => false,
            other => panic!("mixed NtpDuration abs/neg semantics: {:?}", other),
        }
    })
}

const UNIT: f64 = 4294967296.0;

fn li_num(l: NtpLeapIndicator) -> u8 {
    match l {
        NtpLeapIndicator::NoWarning => 0,
        NtpLeapIndicator::Leap61 => 1,
        NtpLeapIndicator::Leap59 => 2,
        NtpLeapIndicator::Unknown => 3,
        NtpLeapIndicator::Unsynchronized => 4,
    }
}

fn li_of(n: u64) -> NtpLeapIndicator {
    match n {
        0 => NtpLeapIndicator::NoWarning,
        1 => NtpLeapIndicator::Leap61,
        2 => NtpLeapIndicator::Leap59,
        3 => NtpLeapIndicator::Unknown,
        _ => NtpLeapIndicator::Unsynchronized,
    }
}

#[derive(Clone, Debug)]
struct CfgLine {
    sat: bool,
    su: (Option<i64>, Option<i64>),
    si: (Option<i64>, Option<i64>),
    ac: Option<i64>,
    st: f64,
    sot: f64,
    sol: f64,
    sft: f64,
    sfl: f64,
    sm: f64,
    sd: f64,
    ms: f64,
    startup: bool,
    acc: i64,
    fo: f64,
    df: f64,
    ma: usize,
    ws: f64,
    wd: f64,
    mu: f64,
    igd: bool,
    iw: f64,
}

fn opt_s(v: Option<i64>) -> String {
    v.map_or("inf".to_string(), |x| x.to_string())
}
fn opt_p(s: &str) -> Option<i64> {
    if s == "inf" {
        None
    } else {
        Some(s.parse().unwrap())
    }
}
fn thr_p(s: &str) -> (Option<i64>, Option<i64>) {
    let mut it = s.split(',');
    (opt_p(it.next().unwrap()), opt_p(it.next().unwrap()))
}

impl CfgLine {
    fn line(&self) -> String {
        format!(
            "cfg sat={} su={},{} si={},{} ac={} st={} sot={} sol={} sft={} sfl={} sm={} sd={} ms={} startup={} acc={} fo={} df={} ma={} ws={} wd={} mu={} igd={} iw={}",
            self.sat as u8, opt_s(self.su.0), opt_s(self.su.1), opt_s(self.si.0), opt_s(self.si.1), opt_s(self.ac),
            f64hex(self.st), f64hex(self.sot), f64hex(self.sol), f64hex(self.sft), f64hex(self.sfl), f64hex(self.sm),
            f64hex(self.sd), f64hex(self.ms), self.startup as u8, self.acc, f64hex(self.fo), f64hex(self.df),
            self.ma, f64hex(self.ws), f64hex(self.wd), f64hex(self.mu), self.igd as u8, f64hex(self.iw)
        )
    }

    fn parse(w: &[&str]) -> CfgLine {
        let f = |k: &str| f64unhex(kv(w, k).expect("cfg key")).expect("hex");
        CfgLine {
            sat: kv(w, "sat").unwrap() != "0",
            su: thr_p(kv(w, "su").unwrap()),
            si: thr_p(kv(w, "si").unwrap()),
            ac: opt_p(kv(w, "ac").unwrap()),
            st: f("st"),
            sot: f("sot"),
            sol: f("sol"),
            sft: f("sft"),
            sfl: f("sfl"),
            sm: f("sm"),
            sd: f("sd"),
            ms: f("ms"),
            startup: kv(w, "startup").unwrap() != "0",
            acc: kv(w, "acc").unwrap().parse().unwrap(),
            fo: f("fo"),
            df: f("df"),
            ma: kv(w, "ma").unwrap().parse().unwrap(),
            ws: f("ws"),
            wd: f("wd"),
            mu: f("mu"),
            igd: kv(w, "igd").unwrap() != "0",
            iw: f("iw"),
        }
    }

    fn build(&self, sh: &Arc<Mutex<Shared>>) -> KalmanClockController<RecClock> {
        let thr = |t: (Option<i64>, Option<i64>)| StepThreshold { forward: t.0.map(dur), backward: t.1.map(dur) };
        let sync = SynchronizationConfig {
            minimum_agreeing_sources: self.ma,
            single_step_panic_threshold: thr(self.si),
            startup_step_panic_threshold: thr(self.su),
            accumulated_step_panic_threshold: self.ac.map(dur),
            ..SynchronizationConfig::default()
        };
        let algo = AlgorithmConfig {
            step_threshold: self.st,
            steer_offset_threshold: self.sot,
            steer_offset_leftover: self.sol,
            steer_frequency_threshold: self.sft,
            steer_frequency_leftover: self.sfl,
            slew_maximum_frequency_offset: self.sm,
            slew_minimum_duration: self.sd,
            maximum_frequency_steer: self.ms,
            range_statistical_weight: self.ws,
            range_delay_weight: self.wd,
            maximum_source_uncertainty: self.mu,
            ignore_server_dispersion: self.igd,
            initial_wander: self.iw,
            ..AlgorithmConfig::default()
        };
        let clock = RecClock { sh: sh.clone(), kernel_freq: self.fo };
        let mut c = KalmanClockController::new(clock, sync, algo).expect("new");
        c.in_startup = self.startup;
        c.timedata.accumulated_steps = dur(self.acc);
        c.desired_freq = self.df;
        c
    }
}

#[derive(Debug)]
enum EndKind {
    Ok,
    Exit,
    Panic,
}

struct Exec {
    sh: Arc<Mutex<Shared>>,
    cfg: Option<CfgLine>,
    ctrl: Option<KalmanClockController<RecClock>>,
    // oracle reference
    ref_startup: bool,
    ref_acc: i128,
    /// C06 oracle: a message with a non-finite / non-positive-variance snapshot was delivered in this case
    tainted: bool,
    key: String,
    interesting: bool,
}

fn within_i128(t: (Option<i64>, Option<i64>), d: i64) -> bool {
    t.0.map_or(true, |v| (d as i128) < v as i128) && t.1.map_or(true, |v| (d as i128) > -(v as i128))
}

fn snap_from(w: &[&str], id: u64) -> SourceSnapshot {
    let f = |k: &str| f64unhex(kv(w, k).expect("key")).expect("hex");
    let u = |k: &str| -> u64 { kv(w, k).expect("key").parse().unwrap() };
    let i = |k: &str| -> i64 { kv(w, k).expect("key").parse().unwrap() };
    SourceSnapshot {
        index: ClockId(id),
        state: KalmanState {
            state: Vector::new_vector([f("so"), f("sf")]),
            uncertainty: Matrix::new([[f("p00"), f("p01")], [f("p10"), f("p11")]]),
            time: NtpTimestamp::from_fixed_int(u("kt")),
        },
        wander: f("w"),
        delay: f("sd"),
        period: match kv(w, "per").expect("per") {
            "-" => None,
            v => Some(f64unhex(v).expect("hex")),
        },
        source_uncertainty: dur(i("su")),
        source_delay: dur(i("sdl")),
        leap_indicator: li_of(u("leap")),
        last_update: NtpTimestamp::from_fixed_int(u("t")),
    }
}

impl Exec {
    fn new() -> Exec {
        Exec {
            sh: Arc::new(Mutex::new(Shared::default())),
            cfg: None,
            ctrl: None,
            ref_startup: true,
            ref_acc: 0,
            tainted: false,
            key: String::new(),
            interesting: false,
        }
    }

    fn set_cfg(&mut self, w: &[&str]) {
        let cfg = CfgLine::parse(w);
        self.ctrl = Some(cfg.build(&self.sh));
        self.ref_startup = cfg.startup;
        self.ref_acc = cfg.acc as i128;
        self.tainted = false;
        self.cfg = Some(cfg);
    }

    fn call<R, F: FnOnce(&mut KalmanClockController<RecClock>) -> R>(&mut self, ft: u64, f: F) -> (EndKind, Vec<Call>, Option<R>) {
        {
            let mut s = self.sh.lock().unwrap();
            s.log.clear();
            s.ft = ft;
        }
        let ctrl = self.ctrl.as_mut().expect("cfg first");
        let r = catch_unwind(AssertUnwindSafe(|| f(ctrl)));
        let calls = self.sh.lock().unwrap().log.clone();
        match r {
            Ok(v) => (EndKind::Ok, calls, Some(v)),
            Err(_) => {
                if common::last_panic().starts_with("Threshold exceeded") {
                    (EndKind::Exit, calls, None)
                } else {
                    (EndKind::Panic, calls, None)
                }
            }
        }
    }

    fn order(&self) -> String {
        let ks: Vec<String> = self.ctrl.as_ref().unwrap().sources.keys().map(|k| k.0.to_string()).collect();
        if ks.is_empty() {
            "-".to_string()
        } else {
            ks.join(",")
        }
    }

    fn calls_str(calls: &[Call]) -> String {
        let evs: Vec<String> = calls
            .iter()
            .map(|c| match c {
                Call::Disable => "disable".to_string(),
                Call::Step(d) => {
                    let (s, n) = d.as_seconds_nanos();
                    format!("step:{}:{}:{}", raw(*d), s, n)
                }
                Call::SetFreq(f) => format!("setfreq:{}", f64hex(*f)),
                Call::Err(e, m) => format!("err:{}:{}", raw(*e), raw(*m)),
                Call::Status(l) => format!("status:{}", li_num(*l)),
            })
            .collect();
        common::comma_list(&evs)
    }

    fn obs(&self, end: &EndKind, calls: &[Call], upd: Option<&InternalStateUpdate<KalmanControllerMessage>>) -> String {
        let evs = Self::calls_str(calls);
        let c = self.ctrl.as_ref().unwrap();
        match end {
            EndKind::Ok => {
                let upd = upd.unwrap();
                let sm = match &upd.source_message {
                    None => "none".to_string(),
                    Some(m) => match &m.inner {
                        KalmanControllerMessageInner::Step { steer } => format!("step:{}", f64hex(*steer)),
                        KalmanControllerMessageInner::FreqChange { steer, time } => format!("freq:{}:{}", f64hex(*steer), ts_raw(*time)),
                    },
                };
                let used = match &upd.used_sources {
                    None => "none".to_string(),
                    Some(v) if v.is_empty() => "-".to_string(),
                    Some(v) => common::comma_list(&v.iter().map(|k| k.0.to_string()).collect::<Vec<_>>()),
                };
                let snap = match &upd.time_snapshot {
                    None => "none".to_string(),
                    Some(t) => format!(
                        "{}:{}:{}:{}:{}:{}:{}:{}",
                        raw(t.root_delay),
                        ts_raw(t.root_variance_base_time),
                        f64hex(t.root_variance_base),
                        f64hex(t.root_variance_linear),
                        f64hex(t.root_variance_quadratic),
                        f64hex(t.root_variance_cubic),
                        li_num(t.leap_indicator),
                        raw(t.accumulated_steps)
                    ),
                };
                let srcs: Vec<String> = c
                    .sources
                    .iter()
                    .map(|(k, (s, u))| match s {
                        None => format!("{}:{}:-", k.0, *u as u8),
                        Some(s) => format!(
                            "{}:{}:{}:{}:{}:{}:{}:{}:{}",
                            k.0,
                            *u as u8,
                            f64hex(s.state.state.ventry(0)),
                            f64hex(s.state.state.ventry(1)),
                            f64hex(s.state.uncertainty.entry(0, 0)),
                            f64hex(s.state.uncertainty.entry(0, 1)),
                            f64hex(s.state.uncertainty.entry(1, 0)),
                            f64hex(s.state.uncertainty.entry(1, 1)),
                            ts_raw(s.state.time)
                        ),
                    })
                    .collect();
                format!(
                    "{} end=ok startup={} acc={} fo={} df={} sm={} used={} snap={} nu={} srcs={}",
                    evs,
                    c.in_startup as u8,
                    raw(c.timedata.accumulated_steps),
                    f64hex(c.freq_offset),
                    f64hex(c.desired_freq),
                    sm,
                    used,
                    snap,
                    upd.next_update.map_or("none".to_string(), |d| d.as_nanos().to_string()),
                    if srcs.is_empty() { "-".to_string() } else { srcs.join(";") }
                )
            }
            EndKind::Exit => format!("{} end=exit", evs),
            EndKind::Panic => format!("{} end=panic", evs),
        }
    }

    /// the properties, evaluated on what the clock saw (no model involved)
    fn oracle(&mut self, run: &mut Run, end: &EndKind, calls: &[Call], finite_inputs: bool) {
        let cfg = self.cfg.clone().unwrap();
        let mut stepped = false;
        for c in calls {
            match c {
                Call::Step(d) => {
                    stepped = true;
                    let d = raw(*d);
                    if self.ref_startup {
                        if !within_i128(cfg.su, d) {
                            run.oracle_fail("step_within_startup", "", &format!("startup step {} outside {:?}", d, cfg.su));
                        }
                    } else {
                        if !within_i128(cfg.si, d) {
                            run.oracle_fail("step_within_single", "", &format!("step {} outside {:?}", d, cfg.si));
                        }
                        self.ref_acc += (d as i128).abs();
                        if let Some(v) = cfg.ac {
                            if self.ref_acc > v as i128 {
                                run.oracle_fail(
                                    "accumulated_within",
                                    &format!("threshold_is_max={}", (v == i64::MAX) as u8),
                                    &format!("sum of |post-startup steps| = {} exceeds {}", self.ref_acc, v),
                                );
                            }
                        }
                    }
                }
                Call::SetFreq(f) => {
                    if f.is_nan() {
                        if finite_inputs {
                            run.oracle_fail("freq_not_nan", "", "NaN frequency applied although all inputs are finite");
                        }
                    } else if !(*f >= -cfg.ms && *f <= cfg.ms) {
                        run.oracle_fail("freq_within_max", "", &format!("set_frequency({:e}) outside +-{:e}", f, cfg.ms));
                    }
                }
                Call::Err(e, _) => {
                    if raw(*e) < 0 {
                        run.oracle_fail("dispersion_nonneg", "", &format!("error_estimate_update with negative dispersion {}", raw(*e)));
                    }
                }
                _ => {}
            }
        }
        if !matches!(end, EndKind::Ok) && stepped {
            run.oracle_fail("exit_instead_of_step", "", "the clock was stepped although the call stopped the daemon");
        }
        if matches!(end, EndKind::Ok) && calls.iter().any(|c| matches!(c, Call::Err(..))) {
            self.ref_startup = false;
        }
    }

    fn exec_op(&mut self, op: &str, run: &mut Run) -> bool {
        run.begin_op(op);
        let w: Vec<&str> = op.split_whitespace().collect();
        let num = |k: &str| -> u64 { kv(&w[1..], k).expect("key").parse().unwrap() };
        match w[0] {
            "cfg" => {
                self.set_cfg(&w[1..]);
                run.end_op("ok");
                true
            }
            "dur" => {
                // `Duration::from_secs_f64` (the conversion behind `next_update`) on its own
                let x = f64unhex(kv(&w[1..], "x").unwrap()).unwrap();
                let o = match std::time::Duration::try_from_secs_f64(x) {
                    Ok(d) => d.as_nanos().to_string(),
                    Err(_) => "none".to_string(),
                };
                run.hit("dur");
                run.end_op(&o);
                true
            }
            "add" | "remove" => {
                let id = num("id");
                let adding = w[0] == "add";
                let (end, calls, _) = self.call(0, |k| {
                    if adding {
                        let _ = k.add_source(ClockId(id), SourceConfig::default());
                    } else {
                        k.remove_source(ClockId(id));
                    }
                });
                let line = format!("{} id={} order={}", w[0], id, self.order());
                let upd = InternalStateUpdate::default();
                let o = self.obs(&end, &calls, Some(&upd));
                run.hit(w[0]);
                run.end_op_as(&line, &o);
                matches!(end, EndKind::Ok)
            }
            "usable" => {
                let id = num("id");
                let u = num("u") != 0;
                let (end, calls, _) = self.call(0, |k| k.source_update(ClockId(id), u));
                let upd = InternalStateUpdate::default();
                let o = self.obs(&end, &calls, Some(&upd));
                run.hit("usable");
                run.end_op(&o);
                matches!(end, EndKind::Ok)
            }
            "msg" => {
                let id = num("id");
                let ft = num("ft");
                let snap = snap_from(&w[1..], id);
                let finite = [
                    snap.state.state.ventry(0),
                    snap.state.state.ventry(1),
                    snap.state.uncertainty.entry(0, 0),
                    snap.state.uncertainty.entry(0, 1),
                    snap.state.uncertainty.entry(1, 0),
                    snap.state.uncertainty.entry(1, 1),
                    snap.wander,
                    snap.delay,
                ]
                .iter()
                .all(|x| x.is_finite() && x.abs() < 1e9)
                    && snap.state.uncertainty.entry(0, 0) > 0.0
                    && snap.state.uncertainty.entry(1, 1) > 0.0;
                let ahead = {
                    let k = self.ctrl.as_ref().unwrap();
                    k.sources.contains_key(&ClockId(id))
                        && k.sources.iter().any(|(kid, (s, _))| {
                            kid.0 != id && s.map_or(false, |v| snap.last_update - v.state.time < NtpDuration::ZERO)
                        })
                };
                if ahead {
                    run.hit("msg-while-other-source-ahead");
                }
                if snap.period.is_some() {
                    run.hit("msg-periodic");
                }
                let (end, calls, upd) = self.call(ft, |k| k.source_message(ClockId(id), KalmanSourceMessage { inner: snap }));
                if ahead && matches!(end, EndKind::Ok) {
                    // C37 "in the order they were produced": the late message is stored all the same
                    let k = self.ctrl.as_ref().unwrap();
                    let stored = k.sources.get(&ClockId(id)).and_then(|e| e.0).map(|s| ts_raw(s.last_update));
                    if stored != Some(ts_raw(snap.last_update)) {
                        run.oracle_fail("late_message_stored", "", "a source's measurement was dropped because another source's filter is ahead in time");
                    }
                }
                self.oracle(run, &end, &calls, false && finite);
                // ORACLE (C06): as long as every snapshot delivered in this case was finite with positive
                // variances (root delay / dispersion may be anything a peer can put on the wire), nothing
                // non-finite is handed to the clock (`from_seconds` debug_assert) or published in the TimeSnapshot
                if !finite {
                    self.tainted = true;
                }
                if !self.tainted {
                    if matches!(end, EndKind::Panic) && common::last_panic().contains("is_infinite") {
                        run.oracle_fail("clock_args_finite", &format!("su={}", kv(&w[1..], "su").unwrap_or("?")), &format!("non-finite value handed to NtpDuration::from_seconds although every delivered snapshot was finite: {}", common::last_panic()));
                    }
                    if let Some(Some(t)) = upd.as_ref().map(|u| u.time_snapshot) {
                        let fs = [t.root_variance_base, t.root_variance_linear, t.root_variance_quadratic, t.root_variance_cubic];
                        if !fs.iter().all(|x| x.is_finite()) {
                            run.oracle_fail("published_snapshot_finite", &format!("su={}", kv(&w[1..], "su").unwrap_or("?")), &format!("TimeSnapshot variances {:?} although every delivered snapshot was finite", fs));
                        }
                    }
                }
                let kind = match &end {
                    EndKind::Exit => 'X',
                    EndKind::Panic => 'P',
                    EndKind::Ok => {
                        if calls.iter().any(|c| matches!(c, Call::Step(_))) {
                            'S'
                        } else if upd.as_ref().map_or(false, |u| u.next_update.is_some()) {
                            'L'
                        } else if calls.iter().any(|c| matches!(c, Call::SetFreq(_))) {
                            'F'
                        } else if !calls.is_empty() {
                            'e'
                        } else {
                            'n'
                        }
                    }
                };
                run.hit(match kind {
                    'X' => "msg-exit",
                    'P' => "msg-panic",
                    'S' => "msg-step",
                    'L' => "msg-slew",
                    'F' => "msg-freq",
                    'e' => "msg-estimate-only",
                    _ => "msg-nothing",
                });
                if let Some(u) = &upd {
                    if let Some(us) = &u.used_sources {
                        run.hit(&format!("used-{}", us.len().min(5)));
                    }
                    if calls.iter().any(|c| matches!(c, Call::Status(_))) {
                        run.hit("status-update");
                    }
                }
                self.key.push(kind);
                if kind != 'n' {
                    self.interesting = true;
                }
                let o = self.obs(&end, &calls, upd.as_ref());
                run.end_op(&o);
                matches!(end, EndKind::Ok)
            }
            "time_update" => {
                let ft = num("ft");
                let (end, calls, upd) = self.call(ft, |k| k.time_update());
                self.oracle(run, &end, &calls, false);
                self.key.push('t');
                run.hit("time_update");
                let o = self.obs(&end, &calls, upd.as_ref());
                run.end_op(&o);
                matches!(end, EndKind::Ok)
            }
            other => panic!("unknown op {:?}", other),
        }
    }
}

fn exec_case(ops: &[String], run: &mut Run) {
    let mut ex = Exec::new();
    for op in ops {
        if !ex.exec_op(op, run) {
            break;
        }
    }
    if ex.interesting {
        let key = ex.key.clone();
        run.nontrivial(&key);
    }
}

// ------------------------------------------------------------------------------------------------ generation

struct SimSource {
    id: u64,
    bias: f64,
    noise: f64,
    ovar: f64,
    fvar: f64,
    delay: f64,
    su: i64,
    sdl: i64,
    wander: f64,
    leap: u64,
    period: Option<f64>,
    lag: u64,
}

fn gen_cfg(rng: &mut Rng) -> CfgLine {
    let s = |x: f64| (x * UNIT) as i64;
    let su = *rng.pick(&[(None, Some(s(86400.0))), (None, None), (Some(s(1000.0)), Some(s(1000.0))), (Some(s(5.0)), Some(s(5.0)))]);
    let si = *rng.pick(&[(Some(s(1000.0)), Some(s(1000.0))), (None, None), (Some(s(10.0)), Some(s(10.0))), (Some(s(0.5)), Some(s(2.0)))]);
    let ac = *rng.pick(&[None, Some(s(1800.0)), Some(s(30.0)), Some(s(1.0))]);
    let startup = rng.chance(5, 6);
    CfgLine {
        sat: sat_ops(),
        su,
        si,
        ac,
        st: *rng.pick(&[0.010, 0.010, 0.0002, 0.5]),
        sot: *rng.pick(&[2.0, 2.0, 0.5, 0.0]),
        sol: *rng.pick(&[1.0, 1.0, 0.0]),
        sft: *rng.pick(&[0.0, 0.0, 2.0]),
        sfl: *rng.pick(&[0.0, 0.0, 1.0]),
        sm: *rng.pick(&[200e-6, 200e-6, 20e-6, 5e-3]),
        sd: *rng.pick(&[8.0, 8.0, 1.0, 300.0]),
        ms: *rng.pick(&[495e-6, 495e-6, 100e-6, 5e-6]),
        startup,
        acc: if startup { 0 } else { *rng.pick(&[0, s(1.0), s(1500.0)]) },
        fo: (rng.f64_unit() - 0.5) * *rng.pick(&[0.0, 1e-5, 4e-4]),
        df: 0.0,
        ma: *rng.pick(&[1usize, 1, 2, 3]),
        ws: *rng.pick(&[2.0, 2.0, 1.0]),
        wd: *rng.pick(&[0.25, 0.25, 1.0]),
        mu: *rng.pick(&[0.250, 0.250, 0.02]),
        igd: rng.chance(1, 4),
        iw: 1e-8,
    }
}

fn gen_source(rng: &mut Rng, id: u64) -> SimSource {
    let s = |x: f64| (x * UNIT) as i64;
    SimSource {
        id,
        bias: if rng.chance(1, 6) { (rng.f64_unit() - 0.5) * *rng.pick(&[1.0, 20.0, 4000.0]) } else { (rng.f64_unit() - 0.5) * 2e-4 },
        noise: *rng.pick(&[1e-6, 1e-5, 3e-4]),
        ovar: *rng.pick(&[1e-10, 1e-8, 1e-6, 1e-4]),
        fvar: *rng.pick(&[1e-16, 1e-12, 1e-8]),
        delay: *rng.pick(&[0.0005, 0.01, 0.1, 0.6]),
        // root dispersion / root delay are the peer's choice: one source in four advertises a boundary value
        // of the 16.16 wire format (one unit, 1 s, 16 s, 65535 s, 0xFFFF.FFFF = 65535.99998 s)
        su: if rng.chance(1, 4) { *rng.pick(&[1i64 << 16, 1 << 32, 16 << 32, 65535i64 << 32, 0xFFFF_FFFFi64 << 16]) } else { *rng.pick(&[0, s(0.001), s(0.05)]) },
        sdl: if rng.chance(1, 4) { *rng.pick(&[1i64 << 16, 1 << 32, 16 << 32, 65535i64 << 32, 0xFFFF_FFFFi64 << 16]) } else { *rng.pick(&[0, s(0.002), s(0.04)]) },
        wander: *rng.pick(&[1e-16, 1e-12, 1e-8]),
        leap: *rng.pick(&[0u64, 0, 0, 0, 0, 1, 2, 3, 4]),
        // one source in five is a periodic one-way source (PPS-like): it knows the offset only modulo its period
        period: if rng.chance(1, 5) { Some(*rng.pick(&[1.0, 1.0, 0.5, 0.125, 3.0])) } else { None },
        // delivery lag of this source's messages (its stamps are that much behind the other sources')
        lag: if rng.chance(1, 3) { rng.below(20 << 32) } else { 0 },
    }
}

/// closed-loop generation: the generator's own controller instance tells it what the clock was told
fn gen_case(rng: &mut Rng) -> Vec<String> {
    let cfg = gen_cfg(rng);
    let nsrc = rng.usize(1, 5);
    let mut cfg = cfg;
    if cfg.ma > nsrc && rng.chance(4, 5) {
        cfg.ma = nsrc;
    }
    let cfg = cfg;
    let mut ops = vec![cfg.line()];
    for _ in 0..3 {
        let x = match rng.below(8) {
            0 => f64::from_bits(rng.next_u64()),
            1 => rng.f64_unit() * 1e-9 * *rng.pick(&[0.4, 0.5, 1.0, 1.5, 2.5, 1e3]),
            2 => (rng.below(1 << 20) as f64 + 0.5) * 1e-9,
            3 => *rng.pick(&[0.0, -0.0, 0.999_999_999_5, 0.999_999_999_4, 1.0, 18446744073709551615.0, 18446744073709549568.0, 1.8446744073709552e19, f64::NAN, f64::INFINITY, -1e-300, 5e-324, 4.656612873077393e-10, 2.5e-9, 3.5e-9, 4503599627370496.5, 9007199254740993.0]),
            4 => rng.f64_unit() * 1e4,
            5 => (rng.below(1 << 30) as f64) / 1024.0 + 0.5e-9,
            6 => f64::from_bits((rng.next_u64() >> 2) | (1 << 61)) ,
            _ => rng.f64_unit() * 100.0,
        };
        ops.push(format!("dur x={}", f64hex(x)));
    }
    let mut sim = Exec::new();
    let cfg_line = cfg.line();
    let cw: Vec<&str> = cfg_line.split_whitespace().collect();
    sim.set_cfg(&cw[1..]);
    let mut ids: Vec<u64> = Vec::new();
    while ids.len() < nsrc {
        let id = rng.below(40) + 1;
        if !ids.contains(&id) {
            ids.push(id);
        }
    }
    let mut srcs: Vec<SimSource> = ids.iter().map(|id| gen_source(rng, *id)).collect();
    let mut present: Vec<bool> = vec![true; nsrc];
    for sx in &srcs {
        ops.push(format!("add id={}", sx.id));
        ops.push(format!("usable id={} u=1", sx.id));
    }
    // the world: `truth` = offset of the remote time to the local clock, drifting with `drift - applied`
    let mut truth = match rng.below(7) {
        0 => 0.0,
        1 => 0.004,
        2 => 0.3,
        3 => 700.0,
        4 => -3600.0,
        5 => (rng.f64_unit() - 0.5) * 4000.0,
        _ => (rng.f64_unit() - 0.5) * 0.02,
    };
    let drift = (rng.f64_unit() - 0.5) * *rng.pick(&[0.0, 2e-6, 1e-4, 2e-3]);
    let mut applied = cfg.fo;
    let mut now: u64 = (3_900_000_000u64 << 32) + rng.below(1 << 32);
    let weird = rng.chance(1, 12);
    let n = rng.usize(8, 60);
    let mut pending_slew = false;
    // replay the bookkeeping ops on the simulation controller
    for op in ops.clone().iter().skip(1) {
        if !op.starts_with("dur ") {
            sim_exec(&mut sim, op);
        }
    }
    for _ in 0..n {
        let dt = *rng.pick(&[1u64, 2, 4, 16, 16, 64, 64, 256, 1024]);
        let dtf = dt as f64 + rng.f64_unit();
        now = now.wrapping_add((dtf * UNIT) as u64);
        truth += (drift - applied) * dtf;
        let ft = now.wrapping_add(rng.below(1 << 28));
        let r = rng.below(100);
        let op = if pending_slew && rng.chance(2, 3) {
            pending_slew = false;
            format!("time_update ft={}", ft)
        } else if r < 3 {
            format!("time_update ft={}", ft)
        } else if r < 7 {
            let i = rng.usize(0, nsrc - 1);
            format!("usable id={} u={}", srcs[i].id, (rng.below(4) != 0) as u8)
        } else if r < 8 {
            let i = rng.usize(0, nsrc - 1);
            if present[i] {
                present[i] = false;
                format!("remove id={}", srcs[i].id)
            } else {
                present[i] = true;
                srcs[i] = gen_source(rng, srcs[i].id);
                format!("add id={}", srcs[i].id)
            }
        } else if r < 11 {
            // the world jumps (someone else set the clock)
            truth += (rng.f64_unit() - 0.5) * *rng.pick(&[0.1, 3.0, 40.0, 3000.0]);
            continue;
        } else {
            let i = rng.usize(0, nsrc - 1);
            let sx = &srcs[i];
            let id = if rng.chance(1, 60) { 77 } else { sx.id };
            let mut so = truth + sx.bias + (rng.f64_unit() - 0.5) * sx.noise;
            let mut sf = (drift - applied) + (rng.f64_unit() - 0.5) * sx.fvar.sqrt();
            let mut p00 = sx.ovar * (0.5 + rng.f64_unit());
            let mut p11 = sx.fvar * (0.5 + rng.f64_unit());
            let c = (p00 * p11).sqrt() * (rng.f64_unit() - 0.5);
            let (mut p01, mut p10) = (c, c);
            // the stamp of this message: sources with a delivery lag report stamps behind the others', so a
            // message can arrive while another source's stored state is already ahead of it (and it carries a
            // NEW value each time)
            let t_msg = now.wrapping_sub(sx.lag);
            let mut kt = t_msg;
            let mut w = sx.wander;
            // a periodic source knows the offset only modulo its period; now and then it reports it unwrapped
            if let Some(p) = sx.period {
                so = so - (so / p).round() * p;
                if rng.chance(1, 6) {
                    so += p * (rng.below(7) as f64 - 3.0);
                }
            }
            let mut sd = sx.delay * (0.9 + 0.2 * rng.f64_unit());
            if rng.chance(1, 5) {
                kt = t_msg.wrapping_sub(rng.below(8 << 32));
            }
            if weird && rng.chance(1, 6) {
                match rng.below(9) {
                    0 => so = f64::NAN,
                    // (an infinite offset state makes `correct_periodicity` loop forever: not for periodic sources)
                    1 => sf = if sx.period.is_some() { 1e-3 } else { f64::INFINITY },
                    2 => p00 = -p00,
                    3 => p10 = -p10,
                    4 => p11 = 0.0,
                    5 => kt = t_msg.wrapping_add(5 << 32),
                    6 => sd = f64::NAN,
                    7 => w = f64::INFINITY,
                    _ => {
                        p00 = 0.0;
                        p01 = 0.0;
                    }
                }
            }
            format!(
                "msg id={} ft={} t={} kt={} so={} sf={} p00={} p01={} p10={} p11={} w={} sd={} su={} sdl={} leap={} per={}",
                id, ft, t_msg, kt, f64hex(so), f64hex(sf), f64hex(p00), f64hex(p01), f64hex(p10), f64hex(p11), f64hex(w),
                f64hex(sd), sx.su, sx.sdl, sx.leap, sx.period.map_or("-".to_string(), f64hex)
            )
        };
        let (alive, calls, slew) = sim_exec(&mut sim, &op);
        ops.push(op);
        for c in &calls {
            match c {
                Call::Step(d) => truth -= d.to_seconds(),
                Call::SetFreq(f) => applied = *f,
                _ => {}
            }
        }
        if slew {
            pending_slew = true;
        }
        if !alive {
            break;
        }
    }
    ops
}

/// run one op on the generator's private controller (no observation is recorded)
fn sim_exec(sim: &mut Exec, op: &str) -> (bool, Vec<Call>, bool) {
    let w: Vec<&str> = op.split_whitespace().collect();
    let num = |k: &str| -> u64 { kv(&w[1..], k).expect("key").parse().unwrap() };
    match w[0] {
        "add" => {
            let id = num("id");
            let (e, c, _) = sim.call(0, |k| {
                let _ = k.add_source(ClockId(id), SourceConfig::default());
            });
            (matches!(e, EndKind::Ok), c, false)
        }
        "remove" => {
            let id = num("id");
            let (e, c, _) = sim.call(0, |k| k.remove_source(ClockId(id)));
            (matches!(e, EndKind::Ok), c, false)
        }
        "usable" => {
            let (id, u) = (num("id"), num("u") != 0);
            let (e, c, _) = sim.call(0, |k| k.source_update(ClockId(id), u));
            (matches!(e, EndKind::Ok), c, false)
        }
        "msg" => {
            let id = num("id");
            let snap = snap_from(&w[1..], id);
            let (e, c, u) = sim.call(num("ft"), |k| k.source_message(ClockId(id), KalmanSourceMessage { inner: snap }));
            (matches!(e, EndKind::Ok), c, u.map_or(false, |u| u.next_update.is_some()))
        }
        "time_update" => {
            let (e, c, _) = sim.call(num("ft"), |k| k.time_update());
            (matches!(e, EndKind::Ok), c, false)
        }
        other => panic!("unknown op {:?}", other),
    }
}

#[test]
fn entry() {
    let stream = std::env::var("VERIF_STREAM").unwrap_or_default();
    match stream.as_str() {
        "steer_whole" => common::drive(
            "steer_whole",
            "real KalmanClockController over a recording clock driven through add_source/source_update/source_message/time_update/remove_source with 1-5 sources and 8-60 steps of closed-loop history (the generator's own controller instance moves the simulated true offset with every step and frequency change; world jumps, lying/unsynchronised/unusable sources, stale and future state times, 1 case in 12 with NaN/inf/negative-variance/asymmetric snapshots); every NtpClock call argument, the InternalStateUpdate, the TimeSnapshot fields and every stored source state compared bit for bit with Model/Controller, which gets only the HashMap iteration order and the set_frequency timestamp from the implementation; non-trivial = at least one call reached the clock; distinct by the string of per-op outcomes",
            |rng, _idx, _run| gen_case(rng),
            exec_case,
        ),
        other => panic!("unknown VERIF_STREAM {:?}", other),
    }
}
