//! verification harness module included into `ntp-proto/src/ipfilter.rs` (guarded hook).
