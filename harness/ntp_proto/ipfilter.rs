//! verification harness dispatcher for hook `verif_ipfilter` of crate `ntp_proto` (guarded hook).
//! Add one line per property cluster:   #[path = "ipfilter_<cluster>.rs"] mod <cluster>;
//! Each sub-module has its own `#[test] fn entry()` selected by VERIF_STREAM and reaches the private
//! items of the module the hook sits in through `super::super::*`.

#[path = "ipfilter_ipf.rs"]
mod ipf;
