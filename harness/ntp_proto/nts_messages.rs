//! verification harness module included into `ntp-proto/src/nts/messages.rs` (guarded hook).
