//! C32 harness, included into `ntp-proto/src/time_types.rs` (guarded hook): grandchild of
//! `crate::time_types`, so the raw integer fields of `NtpTimestamp`, `NtpDuration`, `PollInterval` are
//! visible.
//!
//! Stream c32_ntp: per case 1-8 independent operations on boundary / random values.  Every operation
//! is run under its own `catch_unwind`: a panic is the observation `panic`; the ORACLE decides whether
//! that panic is within Rust's / the function's own contract (division by zero, NaN or infinite seconds,
//! negative or oversized duration handed to a wire encoder) or a violation of the property
//! ("never panics": clause=panic).  The oracle evaluates the property with 128-bit integer arithmetic,
//! independently of the Lean model.
#![allow(clippy::all, clippy::pedantic)]

#[path = "../common/mod.rs"]
mod common;

use super::super::*;
use common::{f64hex, f64unhex, Rng, Run};
use std::panic::{catch_unwind, AssertUnwindSafe};

const MIN: i128 = i64::MIN as i128;
const MAX: i128 = i64::MAX as i128;
const TWO64: i128 = 1i128 << 64;

fn sat(x: i128) -> i128 {
    x.clamp(MIN, MAX)
}

fn dur(x: i64) -> NtpDuration {
    NtpDuration { duration: x }
}

fn ts(x: u64) -> NtpTimestamp {
    NtpTimestamp { timestamp: x }
}

/// boundary-biased i64
fn gen_i64(rng: &mut Rng) -> i64 {
    match rng.below(28) {
        0 => 0,
        1 => 1,
        2 => -1,
        3 => i64::MIN,
        4 => i64::MIN + 1,
        5 => i64::MAX,
        6 => i64::MAX - 1,
        7 => 1 << 32,
        8 => -(1 << 32),
        9 => (1 << 32) + rng.range(-2, 2),
        10 => 0x0000_FFFF_FFFF_FFFF + rng.range(-2, 2),
        11 => 0x0000_FFFF_FFFF_0000 + rng.range(-2, 2),
        12 => (1i64 << 36) + rng.range(-20, 20),
        13 => (i32::MAX as i64) << 32 | rng.below(1 << 32) as i64, // last representable second
        14 => i64::MIN + rng.range(0, 1 << 33),
        15 => i64::MAX - rng.range(0, 1 << 33),
        16 => (1i64 << 62) + rng.range(-2, 2),
        17 => -(1i64 << 62) + rng.range(-2, 2),
        18 | 19 => rng.range(-70000, 70000),
        20 | 21 => rng.range(-(1 << 34), 1 << 34),
        22 => rng.range(0, 0x0000_FFFF_FFFF_FFFF),
        23 => rng.range(0, 1 << 36),
        24 => i64::MIN / 2 + rng.range(-2, 2),
        _ => rng.next_u64() as i64,
    }
}

/// boundary-biased u64 (timestamps)
fn gen_u64(rng: &mut Rng) -> u64 {
    match rng.below(12) {
        0 => 0,
        1 => u64::MAX,
        2 => 1 << 63,
        3 => (1 << 63) - 1,
        4 => rng.below(4),
        5 => u64::MAX - rng.below(4),
        6 => (1u64 << 63).wrapping_add(rng.range(-3, 3) as u64),
        7 => (rng.below(1 << 32)) << 32,
        _ => rng.next_u64(),
    }
}

fn gen_scalar(rng: &mut Rng) -> (i64, &'static str) {
    let ty = *rng.pick(&["i8", "i16", "i32", "i64", "isize", "u8", "u16", "u32"]);
    let (lo, hi): (i64, i64) = match ty {
        "i8" => (i8::MIN as i64, i8::MAX as i64),
        "i16" => (i16::MIN as i64, i16::MAX as i64),
        "i32" => (i32::MIN as i64, i32::MAX as i64),
        "u8" => (0, u8::MAX as i64),
        "u16" => (0, u16::MAX as i64),
        "u32" => (0, u32::MAX as i64),
        _ => (i64::MIN, i64::MAX),
    };
    let k = match rng.below(10) {
        0 => 0,
        1 => 1,
        2 => -1,
        3 => lo,
        4 => hi,
        5 => 2,
        6 => -2,
        7 => rng.range(-10, 10),
        _ => rng.range(lo, hi),
    };
    (k.clamp(lo, hi), ty)
}

fn gen_f64(rng: &mut Rng) -> f64 {
    let two31 = 2147483648.0f64;
    match rng.below(30) {
        // the fraction x - floor(x) rounds to exactly 1.0 (tiny negatives); half a unit; one unit
        26 => if rng.chance(1, 2) { -1e-17 } else { 1e-17 },
        27 => [-1.1102230246251565e-16, -1e-16, -2.220446049250313e-16, 1e-16][rng.below(4) as usize],
        28 => [1.1641532182693481e-10, -1.1641532182693481e-10, 2.3283064365386963e-10, -2.3283064365386963e-10][rng.below(4) as usize],
        29 => {
            // next below / above an integer
            let k = rng.range(-4, 4) as f64;
            let d: i64 = if rng.chance(1, 2) { 1 } else { -1 };
            if k == 0.0 { k } else { f64::from_bits((k.to_bits() as i64 + d) as u64) }
        }
        0 => 0.0,
        1 => -0.0,
        2 => two31,
        3 => -two31,
        4 => f64::from_bits(two31.to_bits() - 1),
        5 => f64::from_bits((-two31).to_bits() + 1), // just below -2^31
        6 => f64::from_bits((-two31).to_bits() - 1), // just above -2^31
        7 => 2147483647.5,
        8 => -2147483648.5,
        9 => 1e-20,
        10 => -1e-20,
        11 => f64::from_bits(1),
        12 => -f64::from_bits(1),
        13 => f64::MAX,
        14 => f64::MIN,
        15 => f64::NAN,
        16 => f64::INFINITY,
        17 => f64::NEG_INFINITY,
        18 => rng.range(-5, 5) as f64 + 0.5,
        19 => rng.range(-(1 << 31), (1 << 31) - 1) as f64,
        20 => f64::from_bits(rng.next_u64()),
        21 => (rng.f64_unit() - 0.5) * 2.0 * two31 * 1.001,
        22 => (rng.f64_unit() - 0.5) * 1e-3,
        23 => 1.0 - f64::EPSILON / 2.0 + rng.range(-3, 3) as f64,
        _ => (rng.f64_unit() - 0.5) * 2.0 * 10f64.powi(rng.range(-12, 10) as i32),
    }
}

fn gen_i8(rng: &mut Rng) -> i64 {
    match rng.below(10) {
        0 => 127,
        1 => -128,
        2 => 126,
        3 => -127,
        4 => rng.range(28, 33),
        5 => rng.range(-34, -30),
        6 => rng.range(-2, 2),
        _ => rng.range(-128, 127),
    }
}

/// design-time witnesses of F-C32 (DESIGN §5) and the boundary corpus: always run first
const CORPUS: &[&str] = &[
    "d.abs -9223372036854775808",
    "d.neg -9223372036854775808",
    "d.div -9223372036854775808 -1 i8",
    "d.div -9223372036854775808 -1 i64",
    "d.absdiff -9223372036854775808 0",
    "d.absdiff 0 9223372036854775807",
    "p.inc 127 127",
    "p.dec -128 -128",
    "ts.sub 1 18446744073709551615",
    "ts.sub 0 9223372036854775808",
    "d.rt 9223372036854775807",
    "d.rt -9223372036854775808",
    "d.rt 9223372034707292160",
    "d.rt -615848750",
    "d.rt -1",
    "d.rt 615848750",
    "d.fromsec bdd7ea4ad9eabb2c",
    "d.short 281474976710655",
    "d.time32 68719476735",
    "d.time32 68719476736",
];

fn gen_op(rng: &mut Rng) -> String {
    match rng.below(34) {
        0 | 1 => {
            let a = gen_u64(rng);
            let b = if rng.chance(1, 3) { a.wrapping_add(gen_i64(rng) as u64) } else { gen_u64(rng) };
            format!("ts.sub {} {}", a, b)
        }
        2 => format!("ts.add {} {}", gen_u64(rng), gen_i64(rng)),
        3 => format!("ts.subd {} {}", gen_u64(rng), gen_i64(rng)),
        4 => {
            let a = gen_u64(rng);
            let b = if rng.chance(1, 2) { a.wrapping_add(gen_i64(rng) as u64) } else { gen_u64(rng) };
            format!("ts.before {} {}", a, b)
        }
        5 | 6 => format!("d.add {} {}", gen_i64(rng), gen_i64(rng)),
        7 | 8 => format!("d.sub {} {}", gen_i64(rng), gen_i64(rng)),
        9 => format!("d.absdiff {} {}", gen_i64(rng), gen_i64(rng)),
        10 => format!("d.neg {}", gen_i64(rng)),
        11 => format!("d.abs {}", gen_i64(rng)),
        12 | 13 => {
            let (k, ty) = gen_scalar(rng);
            format!("d.mul {} {} {}", gen_i64(rng), k, ty)
        }
        14 | 15 => {
            let (k, ty) = gen_scalar(rng);
            format!("d.div {} {} {}", gen_i64(rng), k, ty)
        }
        16 => format!("d.mulppm {} {}", gen_i64(rng), if rng.chance(1, 2) { rng.below(1000) } else { rng.below(1 << 32) }),
        17 => format!("d.tosec {}", gen_i64(rng)),
        18 | 19 | 20 => format!("d.fromsec {}", f64hex(gen_f64(rng))),
        21 => format!("d.rt {}", gen_i64(rng)),
        // realistic offsets: within a few seconds of zero, both signs
        22 => format!("d.rt {}", rng.range(-(1i64 << 34), 1i64 << 34)),
        23 => format!("d.short {}", gen_i64(rng)),
        24 => format!("d.fromshort {}", if rng.chance(1, 3) { u32::MAX as u64 - rng.below(2) } else { rng.below(1 << 32) }),
        25 => format!("d.time32 {}", gen_i64(rng)),
        26 => format!("d.fromtime32 {}", if rng.chance(1, 3) { u32::MAX as u64 - rng.below(2) } else { rng.below(1 << 32) }),
        27 => format!("d.fromexp {}", gen_i8(rng)),
        28 => format!("d.log2 {}", gen_i64(rng)),
        29 => format!("d.secnanos {}", gen_i64(rng)),
        30 => format!("p.inc {} {}", gen_i8(rng), gen_i8(rng)),
        31 => format!("p.dec {} {}", gen_i8(rng), gen_i8(rng)),
        32 => {
            let which = *rng.pick(&["p.finc", "p.asdur", "p.assys", "p.asbyte"]);
            format!("{} {}", which, gen_i8(rng))
        }
        _ => format!("p.frombyte {}", rng.below(256)),
    }
}

fn gen_case(rng: &mut Rng, idx: u64, _run: &Run) -> Vec<String> {
    if (idx as usize) < CORPUS.len() {
        return vec![CORPUS[idx as usize].to_string()];
    }
    let n = rng.usize(1, 8);
    (0..n).map(|_| gen_op(rng)).collect()
}

macro_rules! with_scalar {
    ($ty:expr, $k:expr, $f:ident, $d:expr) => {
        match $ty {
            "i8" => i8::try_from($k).ok().map(|k| $f!(k, $d)),
            "i16" => i16::try_from($k).ok().map(|k| $f!(k, $d)),
            "i32" => i32::try_from($k).ok().map(|k| $f!(k, $d)),
            "i64" => Some($f!($k, $d)),
            "isize" => isize::try_from($k).ok().map(|k| $f!(k, $d)),
            "u8" => u8::try_from($k).ok().map(|k| $f!(k, $d)),
            "u16" => u16::try_from($k).ok().map(|k| $f!(k, $d)),
            "u32" => u32::try_from($k).ok().map(|k| $f!(k, $d)),
            _ => None,
        }
    };
}

/// all three multiplication forms; `Err` when they disagree
macro_rules! mul_forms {
    ($k:expr, $d:expr) => {{
        let a = ($d * $k).duration;
        let b = ($k * $d).duration;
        let mut c = $d;
        c *= $k;
        if a == b && b == c.duration { Ok(a) } else { Err((a, b, c.duration)) }
    }};
}

macro_rules! div_forms {
    ($k:expr, $d:expr) => {{
        let a = ($d / $k).duration;
        let mut c = $d;
        c /= $k;
        if a == c.duration { Ok(a) } else { Err((a, a, c.duration)) }
    }};
}

/// outcome of one operation on the implementation
enum Obs {
    Val(String),
    Panic,
    Bad,
}

struct Ctx<'a> {
    run: &'a mut Run,
    op: &'a str,
    interesting: bool,
}

impl Ctx<'_> {
    fn fail(&mut self, clause: &str, text: String) {
        let name = self.op.split_whitespace().next().unwrap_or("?");
        self.run.oracle_fail(clause, &format!("op={}", name), &format!("{}: {}", self.op, text));
    }
    fn expect_i(&mut self, clause: &str, got: i128, want: i128, what: &str) {
        if got != want {
            self.fail(clause, format!("got {} but {} = {}", got, what, want));
        }
    }
}

fn guarded<T>(f: impl FnOnce() -> T) -> Option<T> {
    catch_unwind(AssertUnwindSafe(f)).ok()
}

fn exec_op(c: &mut Ctx) -> Obs {
    let w: Vec<&str> = c.op.split_whitespace().collect();
    let name = w[0];
    if name == "d.fromsec" {
        let Some(x) = w.get(1).and_then(|h| f64unhex(h)) else { return Obs::Bad };
        let r = guarded(|| NtpDuration::from_seconds(x).duration);
        if !x.is_finite() {
            c.run.hit("fromsec-nonfinite");
            // the function's documented contract (debug_assert); with debug assertions off the result is unspecified
            return match r {
                None => Obs::Panic,
                Some(v) => Obs::Val(v.to_string()),
            };
        }
        let Some(v) = r else {
            c.fail("panic", "from_seconds panicked on a finite input".into());
            return Obs::Panic;
        };
        // sign preservation and saturation, exactly as the property states them
        if (x > 0.0 && v < 0) || (x < 0.0 && v > 0) {
            c.fail("from_seconds_sign", format!("seconds {:e} became {}", x, v));
        }
        if x >= 2147483648.0 {
            c.run.hit("fromsec-sat-high");
            c.interesting = true;
            c.expect_i("from_seconds_saturates", v as i128, MAX, "i64::MAX");
        } else if x < -2147483648.0 {
            c.run.hit("fromsec-sat-low");
            c.interesting = true;
            c.expect_i("from_seconds_saturates", v as i128, MIN, "i64::MIN");
        } else {
            c.run.hit("fromsec-in-range");
            c.interesting = true;
            // accuracy (not in the property text, but what "conversion" means): within 2 units + 1e-9 relative
            let exact = x * 4294967296.0;
            if (v as f64 - exact).abs() > exact.abs() * 1e-9 + 2.0 {
                c.fail("from_seconds_accuracy", format!("seconds {:e} became {} (exact {:e})", x, v, exact));
            }
        }
        // the hardware facts the Lean sign theorem assumes (floor / `as i64` / product range)
        let i = x.floor();
        let ii = i as i64;
        let frac = ((x - i) * u32::MAX as f64) as i64;
        if (x < 0.0 && ii >= 0) || (x >= 0.0 && ii < 0) || frac < 0 || frac > u32::MAX as i64 {
            c.fail("hw_floor_spec", format!("floor/cast facts fail: x={:e} ii={} frac={}", x, ii, frac));
        }
        return Obs::Val(v.to_string());
    }
    let ints: Vec<i128> = w[1..].iter().filter_map(|s| s.parse::<i128>().ok()).collect();
    let ty = w.last().copied().unwrap_or("");
    let i64arg = |k: usize| -> Option<i64> { ints.get(k).and_then(|v| i64::try_from(*v).ok()) };
    let u64arg = |k: usize| -> Option<u64> { ints.get(k).and_then(|v| u64::try_from(*v).ok()) };
    let i8arg = |k: usize| -> Option<i8> { ints.get(k).and_then(|v| i8::try_from(*v).ok()) };
    macro_rules! need {
        ($e:expr) => {
            match $e {
                Some(v) => v,
                None => return Obs::Bad,
            }
        };
    }
    // an operation that must never panic: a panic is a property violation
    macro_rules! total {
        ($e:expr) => {
            match guarded(|| $e) {
                Some(v) => v,
                None => {
                    c.fail("panic", format!("panicked: {}", common::last_panic()));
                    return Obs::Panic;
                }
            }
        };
    }
    match name {
        "ts.sub" => {
            let (a, b) = (need!(u64arg(0)), need!(u64arg(1)));
            let r = total!((ts(a) - ts(b)).duration);
            // shortest signed difference: congruent to a-b modulo 2^64, of least absolute value
            let want = (a as i128 - b as i128 + (1i128 << 63)).rem_euclid(TWO64) - (1i128 << 63);
            c.expect_i("ts_shortest_difference", r as i128, want, "shortest difference");
            // adding it back restores the timestamp (through the implementation's own +, += and -)
            let back = total!((ts(b) + dur(r)).timestamp);
            let mut back2 = ts(b);
            back2 += dur(r);
            let fwd = total!((ts(a) - dur(r)).timestamp);
            if back != a || back2.timestamp != a || fwd != b {
                c.fail("ts_add_back", format!("b+(a-b) = {} / {}, a-(a-b) = {}", back, back2.timestamp, fwd));
            }
            let wrapped = (a as i128 - b as i128) != r as i128;
            c.run.hit(if wrapped { "ts.sub-era-wrap" } else { "ts.sub-plain" });
            c.interesting |= wrapped;
            Obs::Val(r.to_string())
        }
        "ts.add" | "ts.subd" => {
            let (a, d) = (need!(u64arg(0)), need!(i64arg(1)));
            let add = name == "ts.add";
            let r = total!(if add { (ts(a) + dur(d)).timestamp } else { (ts(a) - dur(d)).timestamp });
            let mut asg = ts(a);
            if add {
                asg += dur(d);
            } else {
                asg -= dur(d);
            }
            let exact = if add { a as i128 + d as i128 } else { a as i128 - d as i128 };
            c.expect_i("ts_wrapping", r as i128, exact.rem_euclid(TWO64), "exact result mod 2^64");
            c.expect_i("ts_wrapping", asg.timestamp as i128, r as i128, "the non-assign form");
            // undoing restores
            let undo = total!(if add { (ts(r) - dur(d)).timestamp } else { (ts(r) + dur(d)).timestamp });
            c.expect_i("ts_add_back", undo as i128, a as i128, "the original timestamp");
            let wrapped = exact != r as i128;
            c.run.hit(if wrapped { "ts.add-era-wrap" } else { "ts.add-plain" });
            c.interesting |= wrapped;
            Obs::Val(r.to_string())
        }
        "ts.before" => {
            let (a, b) = (need!(u64arg(0)), need!(u64arg(1)));
            let r = total!(ts(a).is_before(ts(b)));
            let short = (a as i128 - b as i128 + (1i128 << 63)).rem_euclid(TWO64) - (1i128 << 63);
            if r != (short < 0) {
                c.fail("ts_is_before", format!("is_before = {} but shortest difference is {}", r, short));
            }
            c.interesting |= (a < b) != r;
            Obs::Val((r as u8).to_string())
        }
        "d.add" | "d.sub" => {
            let (a, b) = (need!(i64arg(0)), need!(i64arg(1)));
            let add = name == "d.add";
            let r = total!(if add { (dur(a) + dur(b)).duration } else { (dur(a) - dur(b)).duration });
            let mut asg = dur(a);
            if add {
                asg += dur(b);
            } else {
                asg -= dur(b);
            }
            let exact = if add { a as i128 + b as i128 } else { a as i128 - b as i128 };
            c.expect_i("dur_saturating", r as i128, sat(exact), "saturated exact result");
            c.expect_i("dur_saturating", asg.duration as i128, r as i128, "the non-assign form");
            let s = exact != sat(exact);
            c.run.hit(if s { "d.addsub-saturated" } else { "d.addsub-exact" });
            c.interesting |= s;
            Obs::Val(r.to_string())
        }
        "d.absdiff" => {
            let (a, b) = (need!(i64arg(0)), need!(i64arg(1)));
            let r = total!(dur(a).abs_diff(dur(b)).duration);
            c.expect_i("dur_saturating", r as i128, sat((a as i128 - b as i128).abs()), "saturated |a-b|");
            Obs::Val(r.to_string())
        }
        "d.neg" => {
            let a = need!(i64arg(0));
            let r = total!((-dur(a)).duration);
            c.expect_i("dur_saturating", r as i128, sat(-(a as i128)), "saturated -a");
            c.run.hit(if a == i64::MIN { "d.neg-saturated" } else { "d.neg-exact" });
            c.interesting |= a == i64::MIN;
            Obs::Val(r.to_string())
        }
        "d.abs" => {
            let a = need!(i64arg(0));
            let r = total!(dur(a).abs().duration);
            c.expect_i("dur_saturating", r as i128, sat((a as i128).abs()), "saturated |a|");
            c.run.hit(if a == i64::MIN { "d.abs-saturated" } else { "d.abs-exact" });
            c.interesting |= a == i64::MIN;
            Obs::Val(r.to_string())
        }
        "d.mul" => {
            let (a, k) = (need!(i64arg(0)), need!(i64arg(1)));
            let d = dur(a);
            let r = total!(with_scalar!(ty, k, mul_forms, d));
            let r = need!(r);
            let r = match r {
                Ok(v) => v,
                Err(t) => {
                    c.fail("dur_saturating", format!("d*k, k*d, d*=k disagree: {:?}", t));
                    t.0
                }
            };
            let exact = a as i128 * k as i128;
            c.expect_i("dur_saturating", r as i128, sat(exact), "saturated exact product");
            let s = exact != sat(exact);
            c.run.hit(if s { "d.mul-saturated" } else { "d.mul-exact" });
            c.interesting |= s;
            Obs::Val(r.to_string())
        }
        "d.div" => {
            let (a, k) = (need!(i64arg(0)), need!(i64arg(1)));
            let d = dur(a);
            let r = guarded(|| with_scalar!(ty, k, div_forms, d));
            if k == 0 {
                // division by zero panics by Rust's own contract
                c.run.hit("d.div-by-zero");
                return match r {
                    None => Obs::Panic,
                    Some(None) => Obs::Bad,
                    Some(Some(v)) => {
                        c.fail("dur_div_zero", format!("division by zero returned {:?}", v));
                        Obs::Val(format!("{:?}", v))
                    }
                };
            }
            let Some(r) = r else {
                c.fail("panic", format!("panicked: {}", common::last_panic()));
                return Obs::Panic;
            };
            let r = need!(r);
            let r = match r {
                Ok(v) => v,
                Err(t) => {
                    c.fail("dur_saturating", format!("d/k and d/=k disagree: {:?}", t));
                    t.0
                }
            };
            let exact = a as i128 / k as i128; // i128 `/` truncates toward zero like i64 `/`
            c.expect_i("dur_saturating", r as i128, sat(exact), "saturated exact quotient");
            let s = exact != sat(exact);
            c.run.hit(if s { "d.div-saturated" } else { "d.div-exact" });
            c.interesting |= s;
            Obs::Val(r.to_string())
        }
        "d.mulppm" => {
            let (a, k) = (need!(i64arg(0)), need!(ints.get(1).and_then(|v| u32::try_from(*v).ok())));
            let r = total!((dur(a) * FrequencyTolerance::ppm(k)).duration);
            c.expect_i("dur_saturating", r as i128, sat(a as i128 * k as i128) / 1_000_000, "sat(a*ppm)/10^6");
            Obs::Val(r.to_string())
        }
        "d.tosec" => {
            let a = need!(i64arg(0));
            let r = total!(dur(a).to_seconds());
            if !r.is_finite() || (a > 0 && r <= 0.0) || (a < 0 && r >= 0.0) || (a == 0 && r != 0.0) {
                c.fail("to_seconds_sign", format!("to_seconds = {:e}", r));
            }
            Obs::Val(f64hex(r))
        }
        "d.rt" => {
            let a = need!(i64arg(0));
            let r = total!(NtpDuration::from_seconds(dur(a).to_seconds()).duration);
            // |rt - a| < 1e-9 * |a| + 1 unit, evaluated exactly in integers
            let err = (r as i128 - a as i128).abs();
            if err * 1_000_000_000 > (a as i128).abs() + 1_000_000_000 {
                // Known finding F-C32b: for -10^9 < d < 0 (between -0.233 s and 0) `floor` makes the
                // integer part -1, the `/ (2^32-1)` vs `<< 32` asymmetry then costs one unit and the
                // truncation of the fraction word a second one: error 2 > 10^-9*|d| + 1.  Everything
                // else is reported un-narrowed.
                let known = a < 0 && a > -1_000_000_000 && err == 2;
                let attrs = format!("op=d.rt region={} err={}", if known { "neg-sub-quarter-second" } else { "other" },
                    if err == 2 { "2" } else { "other" });
                let text = format!("{}: round trip gives {} (error {})", c.op, r, err);
                c.run.oracle_fail("roundtrip_bound", &attrs, &text);
                c.run.hit(if known { "d.rt-known-F-C32b" } else { "d.rt-bound-violated" });
            }
            // the bound the real code does satisfy (one more unit); never relaxed
            if err * 1_000_000_000 > (a as i128).abs() + 2_000_000_000 {
                c.fail("roundtrip_bound_plus_one", format!("round trip gives {} (error {})", r, err));
            }
            if (a > 0 && r < 0) || (a < 0 && r > 0) {
                c.fail("from_seconds_sign", format!("round trip gives {}", r));
            }
            c.run.hit(if r == i64::MAX || r == i64::MIN { "d.rt-saturated" } else { "d.rt-in-range" });
            c.interesting = true;
            Obs::Val(r.to_string())
        }
        "d.short" => {
            let a = need!(i64arg(0));
            let r = guarded(|| u32::from_be_bytes(dur(a).to_bits_short()));
            if a < 0 || a > 0x0000_FFFF_FFFF_FFFF {
                // outside the encoder's contract (`assert!` / `debug_assert!`): the property speaks of
                // non-negative durations that fit the format
                c.run.hit("d.short-out-of-contract");
                return match r {
                    None => Obs::Panic,
                    Some(v) => Obs::Val(v.to_string()),
                };
            }
            let Some(u) = r else {
                c.fail("panic", format!("panicked: {}", common::last_panic()));
                return Obs::Panic;
            };
            let back = total!(NtpDuration::from_bits_short(u.to_be_bytes()).duration);
            let diff = a as i128 - back as i128;
            if !(0..65536).contains(&diff) {
                c.fail("short_within_one_unit", format!("encodes to {} which decodes to {}", u, back));
            }
            c.run.hit("d.short-fits");
            c.interesting = true;
            Obs::Val(u.to_string())
        }
        "d.time32" => {
            let a = need!(i64arg(0));
            let r = guarded(|| u32::from_be_bytes(dur(a).to_bits_time32()));
            if a < 0 {
                c.run.hit("d.time32-out-of-contract");
                return match r {
                    None => Obs::Panic,
                    Some(v) => Obs::Val(v.to_string()),
                };
            }
            let Some(u) = r else {
                c.fail("panic", format!("panicked: {}", common::last_panic()));
                return Obs::Panic;
            };
            let back = total!(NtpDuration::from_bits_time32(u.to_be_bytes()).duration);
            if (a >> 4) <= u32::MAX as i64 {
                let diff = a as i128 - back as i128;
                if !(0..16).contains(&diff) {
                    c.fail("time32_within_one_unit", format!("encodes to {} which decodes to {}", u, back));
                }
                c.run.hit("d.time32-fits");
                c.interesting = true;
            } else {
                c.run.hit("d.time32-saturated");
                c.expect_i("time32_saturates", u as i128, u32::MAX as i128, "u32::MAX");
            }
            Obs::Val(u.to_string())
        }
        "d.fromshort" | "d.fromtime32" => {
            let u = need!(ints.first().and_then(|v| u32::try_from(*v).ok()));
            let short = name == "d.fromshort";
            let r = total!(if short {
                NtpDuration::from_bits_short(u.to_be_bytes()).duration
            } else {
                NtpDuration::from_bits_time32(u.to_be_bytes()).duration
            });
            c.expect_i("wire_decode", r as i128, (u as i128) << if short { 16 } else { 4 }, "u << shift");
            // decode then encode is the identity
            let again = total!(if short {
                u32::from_be_bytes(dur(r).to_bits_short())
            } else {
                u32::from_be_bytes(dur(r).to_bits_time32())
            });
            c.expect_i("wire_decode", again as i128, u as i128, "the encoded value");
            Obs::Val(r.to_string())
        }
        "d.fromexp" => {
            let e = need!(i8arg(0));
            let r = total!(NtpDuration::from_exponent(e).duration);
            let want: i128 = if e > 30 {
                MAX
            } else if e >= -32 {
                1i128 << (32 + e as i32)
            } else {
                0
            };
            c.expect_i("from_exponent", r as i128, want, "2^(32+e) saturated");
            Obs::Val(r.to_string())
        }
        "d.log2" => {
            let a = need!(i64arg(0));
            let r = total!(dur(a).log2());
            if a > 0 {
                let lo = 1i128 << (r as i32 + 32);
                if !(lo <= a as i128 && (a as i128) < 2 * lo) {
                    c.fail("log2", format!("log2 = {}", r));
                }
            } else if a == 0 && r != i8::MIN {
                c.fail("log2", format!("log2(0) = {}", r));
            }
            Obs::Val(r.to_string())
        }
        "d.secnanos" => {
            let a = need!(i64arg(0));
            let (s, n) = total!(dur(a).as_seconds_nanos());
            let fl = (a as i128).div_euclid(1 << 32);
            let fr = (a as i128).rem_euclid(1 << 32);
            if s as i128 != fl || n >= 1_000_000_000 || n as i128 != (fr * 1_000_000_000) >> 32 {
                c.fail("as_seconds_nanos", format!("({}, {})", s, n));
            }
            Obs::Val(format!("{} {}", s, n))
        }
        "p.inc" | "p.dec" => {
            let (p, l) = (need!(i8arg(0)), need!(i8arg(1)));
            let inc = name == "p.inc";
            let limits = PollIntervalLimits {
                min: if inc { PollInterval(i8::MIN) } else { PollInterval(l) },
                max: if inc { PollInterval(l) } else { PollInterval(i8::MAX) },
            };
            let r = total!(if inc { PollInterval(p).inc(limits).0 } else { PollInterval(p).dec(limits).0 });
            let want = if inc {
                (p as i128 + 1).min(127).min(l as i128)
            } else {
                (p as i128 - 1).max(-128).max(l as i128)
            };
            c.expect_i("poll_within_limits", r as i128, want, "clamped step");
            c.interesting |= p == 127 || p == -128 || r == l;
            Obs::Val(r.to_string())
        }
        "p.finc" => {
            let p = need!(i8arg(0));
            let r = total!(PollInterval(p).force_inc().0);
            c.expect_i("poll_within_limits", r as i128, (p as i128 + 1).min(127), "saturated p+1");
            Obs::Val(r.to_string())
        }
        "p.asdur" => {
            let p = need!(i8arg(0));
            let r = total!(PollInterval(p).as_duration().duration);
            c.expect_i("poll_as_duration", r as i128, 1i128 << (p as i32 + 32).clamp(0, 62), "2^clamp(p+32,0,62)");
            Obs::Val(r.to_string())
        }
        "p.assys" => {
            let p = need!(i8arg(0));
            let r = total!(PollInterval(p).as_system_duration());
            if r.subsec_nanos() != 0 {
                c.fail("poll_as_duration", format!("{:?}", r));
            }
            c.expect_i("poll_as_duration", r.as_secs() as i128, 1i128 << (p as i32).clamp(0, 31), "2^clamp(p,0,31)");
            Obs::Val(r.as_secs().to_string())
        }
        "p.frombyte" => {
            let b = need!(ints.first().and_then(|v| u8::try_from(*v).ok()));
            let r = total!(PollInterval::from_byte(b));
            c.expect_i("poll_byte", r.as_byte() as i128, b as i128, "the byte");
            Obs::Val(r.0.to_string())
        }
        "p.asbyte" => {
            let p = need!(i8arg(0));
            let r = total!(PollInterval(p).as_byte());
            c.expect_i("poll_byte", PollInterval::from_byte(r).0 as i128, p as i128, "the interval");
            Obs::Val(r.to_string())
        }
        _ => Obs::Bad,
    }
}

fn exec_case(ops: &[String], run: &mut Run) {
    let mut interesting = false;
    for op in ops {
        run.begin_op(op);
        let mut c = Ctx { run: &mut *run, op, interesting: false };
        let obs = exec_op(&mut c);
        interesting |= c.interesting;
        match obs {
            Obs::Val(v) => run.end_op(&v),
            Obs::Panic => {
                run.hit("panic-observed");
                run.end_op("panic")
            }
            Obs::Bad => run.end_op("bad-op"),
        }
    }
    if interesting {
        run.nontrivial(&ops.join("|"));
    }
}

#[test]
fn entry() {
    let stream = std::env::var("VERIF_STREAM").unwrap_or_default();
    match stream.as_str() {
        "c32_ntp" => common::drive(
            "c32_ntp",
            "1-8 independent operations per case on NtpTimestamp / NtpDuration / PollInterval with operands at 0, ±1, i64::MIN/MAX (±1), ±2^32, ±2^62, the short/time32 format limits ±2, era midpoints, f64 seconds at ±2^31 ± 1 ulp, ±0, subnormals, NaN/inf, and random; F-C32 witnesses first; non-trivial = a case that reached a wrap / saturation / in-format / conversion arm; distinct by op text",
            gen_case,
            exec_case,
        ),
        other => panic!("unknown VERIF_STREAM {:?}", other),
    }
}
