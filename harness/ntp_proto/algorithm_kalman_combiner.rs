//! verification harness module included into `ntp-proto/src/algorithm/kalman/combiner.rs` (guarded hook).
