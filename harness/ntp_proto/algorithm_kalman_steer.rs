//! verification harness module for the steering cluster (C01, C02), included into
//! `ntp-proto/src/algorithm/kalman/mod.rs` through the dispatcher `algorithm_kalman.rs` (guarded hook).
//! Grandchild of `crate::algorithm::kalman`, so it sees the controller's private fields and functions.
//!
//! Streams (selected with VERIF_STREAM):
//!   steer_unit  — a real `KalmanClockController` over a recording clock; private state (`in_startup`,
//!                 `timedata.accumulated_steps`, `freq_offset`, `desired_freq`, thresholds, algorithm
//!                 limits) set from the `cfg` line; op sequences of `steer_offset` / `check_offset_steer` /
//!                 `steer_frequency` / `time_update` with `change` at the decision boundaries
//!                 (C01 weighting: thresholds ± 1 unit, accumulation over several steps, ±2^31 s, NaN/∞)
//!   steer_freq  — same machinery, C02 weighting (extreme `change`, extreme kernel frequency, slews)
//!   steer_msgs  — `source_message` with hand-made snapshots of 1–3 sources, i.e. the real `update_clock`
//!                 (select → combine → steering decision); the combined estimate is read back by running the
//!                 first half of `update_clock` on a clone of the controller and handed to the model
//!
//! Observation per op: the clock calls (`disable`, `step:<raw i64>:<sec>:<nanos>`, `setfreq:<bits>`), how
//! the op ended (`ok` / `exit` = the project's `panic!("Threshold exceeded")`, which is `process::exit` in
//! non-test builds / `panic`), and after `ok` the four controller fields the properties name.
#![allow(clippy::all, clippy::pedantic)]

#[path = "../common/mod.rs"]
mod common;

use super::super::matrix::{Matrix, Vector};
use super::super::*;
use crate::config::StepThreshold;
use common::{f64hex, f64unhex, kv, Rng, Run};
use std::panic::{catch_unwind, AssertUnwindSafe};
use std::sync::{Arc, Mutex};

#[derive(Debug, Clone)]
enum Call {
    Disable,
    Step(NtpDuration),
    SetFreq(f64),
}

#[derive(Debug, Clone)]
struct RecClock {
    log: Arc<Mutex<Vec<Call>>>,
    kernel_freq: f64,
}

impl NtpClock for RecClock {
    type Error = std::io::Error;
    fn now(&self) -> Result<NtpTimestamp, Self::Error> {
        Ok(NtpTimestamp::from_fixed_int(0))
    }
    fn set_frequency(&self, freq: f64) -> Result<NtpTimestamp, Self::Error> {
        self.log.lock().unwrap().push(Call::SetFreq(freq));
        Ok(NtpTimestamp::from_fixed_int(0))
    }
    fn get_frequency(&self) -> Result<f64, Self::Error> {
        Ok(self.kernel_freq)
    }
    fn step_clock(&self, offset: NtpDuration) -> Result<NtpTimestamp, Self::Error> {
        self.log.lock().unwrap().push(Call::Step(offset));
        Ok(NtpTimestamp::from_fixed_int(0))
    }
    fn disable_ntp_algorithm(&self) -> Result<(), Self::Error> {
        self.log.lock().unwrap().push(Call::Disable);
        Ok(())
    }
    fn error_estimate_update(&self, _e: NtpDuration, _m: NtpDuration) -> Result<(), Self::Error> {
        Ok(())
    }
    fn status_update(&self, _l: NtpLeapIndicator) -> Result<(), Self::Error> {
        Ok(())
    }
}

/// raw fixed-point value of an `NtpDuration` (the field is private to `time_types`): binary search with
/// the derived `Ord` against `from_fixed_int`
fn raw(d: NtpDuration) -> i64 {
    let (mut lo, mut hi) = (i64::MIN as i128, i64::MAX as i128);
    while lo < hi {
        let mid = (lo + hi).div_euclid(2);
        if NtpDuration::from_fixed_int(mid as i64) < d {
            lo = mid + 1;
        } else {
            hi = mid;
        }
    }
    lo as i64
}

fn dur(r: i64) -> NtpDuration {
    NtpDuration::from_fixed_int(r)
}

/// does this build have the saturating `NtpDuration::abs` / `Neg` (proposed C32 fix) or the panicking ones?
fn sat_ops() -> bool {
    static SAT: std::sync::OnceLock<bool> = std::sync::OnceLock::new();
    *SAT.get_or_init(sat_ops_probe)
}

fn sat_ops_probe() -> bool {
    let a = catch_unwind(|| dur(i64::MIN).abs());
    let n = catch_unwind(|| -dur(i64::MIN));
    match (a, n) {
        (Ok(a), Ok(n)) if a == dur(i64::MAX) && n == dur(i64::MAX) => true,
        (Err(_), Err(_)) => false,
        other => panic!("mixed NtpDuration abs/neg semantics: {:?}", other),
    }
}

#[derive(Clone, Debug)]
struct CfgLine {
    sat: bool,
    su: (Option<i64>, Option<i64>),
    si: (Option<i64>, Option<i64>),
    ac: Option<i64>,
    st: f64,
    sot: f64,
    sol: f64,
    sft: f64,
    sfl: f64,
    sm: f64,
    sd: f64,
    ms: f64,
    startup: bool,
    acc: i64,
    fo: f64,
    df: f64,
}

fn opt_s(v: Option<i64>) -> String {
    v.map(|x| x.to_string()).unwrap_or_else(|| "inf".to_string())
}
fn opt_p(s: &str) -> Option<i64> {
    if s == "inf" {
        None
    } else {
        Some(s.parse().expect("int"))
    }
}
fn thr_p(s: &str) -> (Option<i64>, Option<i64>) {
    let (f, b) = s.split_once(',').expect("thr");
    (opt_p(f), opt_p(b))
}

impl CfgLine {
    fn line(&self) -> String {
        format!(
            "cfg sat={} su={},{} si={},{} ac={} st={} sot={} sol={} sft={} sfl={} sm={} sd={} ms={} startup={} acc={} fo={} df={}",
            self.sat as u8,
            opt_s(self.su.0), opt_s(self.su.1), opt_s(self.si.0), opt_s(self.si.1), opt_s(self.ac),
            f64hex(self.st), f64hex(self.sot), f64hex(self.sol), f64hex(self.sft), f64hex(self.sfl),
            f64hex(self.sm), f64hex(self.sd), f64hex(self.ms),
            self.startup as u8, self.acc, f64hex(self.fo), f64hex(self.df)
        )
    }
    fn parse(w: &[&str]) -> CfgLine {
        let f = |k: &str| f64unhex(kv(w, k).expect(k)).expect(k);
        CfgLine {
            sat: kv(w, "sat").expect("sat") != "0",
            su: thr_p(kv(w, "su").expect("su")),
            si: thr_p(kv(w, "si").expect("si")),
            ac: opt_p(kv(w, "ac").expect("ac")),
            st: f("st"),
            sot: f("sot"),
            sol: f("sol"),
            sft: f("sft"),
            sfl: f("sfl"),
            sm: f("sm"),
            sd: f("sd"),
            ms: f("ms"),
            startup: kv(w, "startup").expect("startup") != "0",
            acc: kv(w, "acc").expect("acc").parse().expect("acc"),
            fo: f("fo"),
            df: f("df"),
        }
    }
    fn build(&self, log: &Arc<Mutex<Vec<Call>>>) -> KalmanClockController<RecClock> {
        let thr = |t: (Option<i64>, Option<i64>)| StepThreshold { forward: t.0.map(dur), backward: t.1.map(dur) };
        let sync = SynchronizationConfig {
            minimum_agreeing_sources: 1,
            single_step_panic_threshold: thr(self.si),
            startup_step_panic_threshold: thr(self.su),
            accumulated_step_panic_threshold: self.ac.map(dur),
            ..SynchronizationConfig::default()
        };
        let algo = AlgorithmConfig {
            step_threshold: self.st,
            steer_offset_threshold: self.sot,
            steer_offset_leftover: self.sol,
            steer_frequency_threshold: self.sft,
            steer_frequency_leftover: self.sfl,
            slew_maximum_frequency_offset: self.sm,
            slew_minimum_duration: self.sd,
            maximum_frequency_steer: self.ms,
            ..AlgorithmConfig::default()
        };
        let clock = RecClock { log: log.clone(), kernel_freq: self.fo };
        let mut c = KalmanClockController::new(clock, sync, algo).expect("new");
        c.in_startup = self.startup;
        c.timedata.accumulated_steps = dur(self.acc);
        c.desired_freq = self.df;
        c
    }
}

const UNIT: f64 = 4294967296.0;

fn next_up(x: f64, k: i64) -> f64 {
    // move k ulps (k may be negative); x finite
    if x.is_nan() || x.is_infinite() {
        return x;
    }
    let b = x.to_bits() as i64;
    let key = if b < 0 { i64::MIN.wrapping_sub(b) } else { b };
    let key = key.saturating_add(k);
    let b = if key < 0 { i64::MIN.wrapping_sub(key) } else { key };
    f64::from_bits(b as u64)
}

fn gen_thr_part(rng: &mut Rng, backward: bool) -> Option<i64> {
    match rng.below(20) {
        0..=3 => None,
        4 => Some(0),
        5 => Some(1),
        6 => Some((0.125 * UNIT) as i64),
        7..=9 => Some(1 << 32),
        10..=11 => Some(10 << 32),
        12..=13 => Some(1000i64 << 32),
        14 => Some(86400i64 << 32),
        15 => Some(i64::MAX),
        16 => Some(rng.range(1, 100_000) << 20),
        17 => {
            if backward && rng.chance(1, 2) {
                Some(i64::MIN)
            } else {
                Some(-(1 << 32))
            }
        }
        _ => Some((rng.range(1, 2000) << 32) + rng.range(-3, 3)),
    }
}

fn gen_cfg(rng: &mut Rng, sat: bool, c02: bool) -> CfgLine {
    let pick = |rng: &mut Rng, dflt: f64, alts: &[f64]| -> f64 {
        if rng.chance(3, 5) {
            dflt
        } else {
            *rng.pick(alts)
        }
    };
    let su = (gen_thr_part(rng, false), gen_thr_part(rng, true));
    let si = if rng.chance(1, 6) { su } else { (gen_thr_part(rng, false), gen_thr_part(rng, true)) };
    let ac = match rng.below(10) {
        0..=3 => None,
        4 => Some(i64::MAX),
        5 => Some(0),
        6 => Some(3 << 32),
        7 => Some(10 << 32),
        8 => Some(2500i64 << 32),
        _ => Some(rng.range(1, 5000) << 32),
    };
    let startup = rng.chance(2, 5);
    let acc = if startup || rng.chance(1, 2) {
        0
    } else {
        match rng.below(4) {
            0 => rng.range(0, 4000) << 32,
            1 => ac.unwrap_or(5 << 32).saturating_sub(rng.range(0, 3 << 32)).max(0),
            2 => i64::MAX - rng.range(0, 1 << 33),
            _ => rng.range(0, 20) << 32,
        }
    };
    let extreme: [f64; 8] = [0.0, -0.0, 1e-300, 1.0, 1e300, f64::INFINITY, f64::NAN, -1.0];
    let fo = if rng.chance(1, 2) {
        (rng.f64_unit() - 0.5) * 1e-3
    } else if c02 {
        *rng.pick(&[0.0, 495e-6, -495e-6, 1e-3, -1e-3, 0.5, -0.5, -1.0, -2.0, 1e300, -1e300, f64::INFINITY, f64::NEG_INFINITY, f64::NAN, 5e-324])
    } else {
        *rng.pick(&[0.0, 495e-6, -495e-6, 1e-3, -1.0])
    };
    let df = if rng.chance(2, 3) {
        0.0
    } else {
        *rng.pick(&[200e-6, -200e-6, -0.0, 1e-9, 1e-3, f64::NAN])
    };
    CfgLine {
        sat,
        su,
        si,
        ac,
        st: pick(rng, 0.010, &[0.0, 1e-3, 1.0, 100.0, f64::INFINITY, f64::NAN, -1.0, 0.010]),
        sot: pick(rng, 2.0, &[0.0, 1.0, 3.0, f64::NAN, -1.0]),
        sol: pick(rng, 1.0, &[0.0, 2.0, 3.0, f64::NAN]),
        sft: pick(rng, 0.0, &[1.0, 2.0, f64::NAN]),
        sfl: pick(rng, 0.0, &[1.0, 2.0]),
        sm: pick(rng, 200e-6, if c02 { &extreme } else { &[100e-6, 1e-3, 0.0] }),
        sd: pick(rng, 8.0, if c02 { &extreme } else { &[1.0, 100.0, 0.0] }),
        ms: pick(rng, 495e-6, if c02 { &extreme } else { &[100e-6, 0.0, -1.0, f64::NAN] }),
        startup,
        acc,
        fo,
        df,
    }
}

/// a `change` aimed at the decision boundaries of the given configuration
fn gen_change(rng: &mut Rng, cfg: &CfgLine) -> f64 {
    let sign = if rng.chance(1, 2) { 1.0 } else { -1.0 };
    let thr_raws: Vec<i64> = [cfg.su.0, cfg.su.1, cfg.si.0, cfg.si.1, cfg.ac, cfg.ac.map(|v| v.saturating_sub(cfg.acc))]
        .iter()
        .filter_map(|x| *x)
        .collect();
    match rng.below(16) {
        0..=4 if !thr_raws.is_empty() => {
            // threshold ± a few fixed-point units / ulps
            let r = *rng.pick(&thr_raws);
            let r = r.saturating_add(rng.range(-2, 2));
            let s = dur(r).to_seconds();
            sign * next_up(s, rng.range(-2, 2))
        }
        5 | 6 => sign * next_up(cfg.st, rng.range(-1, 1)),
        7 => sign * *rng.pick(&[2147483648.0, 2147483647.0, 2147483649.0, 2147483648.5, 4294967296.0, 1e10, 1e300]),
        8 => *rng.pick(&[f64::NAN, f64::INFINITY, f64::NEG_INFINITY, 0.0, -0.0, 5e-324, -5e-324, 1e-320]),
        9 | 10 => sign * rng.f64_unit() * 0.02,
        11 | 12 => sign * (1.0 + rng.f64_unit() * 4.0),
        13 => sign * rng.f64_unit() * 2000.0,
        14 => sign * rng.f64_unit() * 100000.0,
        _ => sign * (rng.range(1, 1200) as f64),
    }
}

fn gen_small(rng: &mut Rng, c02: bool) -> f64 {
    let sign = if rng.chance(1, 2) { 1.0 } else { -1.0 };
    match rng.below(if c02 { 12 } else { 6 }) {
        0 => 0.0,
        1 | 2 => sign * rng.f64_unit() * 1e-6,
        3 => sign * rng.f64_unit() * 1e-3,
        4 => sign * 495e-6,
        5 => sign * rng.f64_unit(),
        6 => sign * 1e300,
        7 => sign * f64::INFINITY,
        8 => f64::NAN,
        9 => sign * 5e-324,
        10 => -1.0,
        _ => sign * 1e16,
    }
}

fn gen_unit_case(rng: &mut Rng, c02: bool, corpus_idx: Option<u64>) -> Vec<String> {
    let sat = sat_ops();
    if let Some(i) = corpus_idx {
        if let Some(c) = corpus_case(i, sat) {
            return c;
        }
    }
    let cfg = gen_cfg(rng, sat, c02);
    let mut ops = vec![cfg.line()];
    let n = rng.usize(1, 8);
    // a base step used repeatedly, so that accumulation is reached
    let base = gen_change(rng, &cfg);
    for _ in 0..n {
        let r = rng.below(100);
        let (p_off, p_freq, p_time) = if c02 { (45, 80, 92) } else { (70, 80, 88) };
        if r < p_off {
            let c = if rng.chance(1, 3) { base } else { gen_change(rng, &cfg) };
            ops.push(format!("steer_offset c={} fd={}", f64hex(c), f64hex(gen_small(rng, c02))));
        } else if r < p_freq {
            ops.push(format!("steer_freq c={}", f64hex(gen_small(rng, true))));
        } else if r < p_time {
            ops.push("time_update".to_string());
        } else {
            let c = if rng.chance(1, 3) { base } else { gen_change(rng, &cfg) };
            ops.push(format!("check c={}", f64hex(c)));
        }
    }
    ops
}

/// design-time / build-time witnesses that always run first
fn corpus_case(i: u64, sat: bool) -> Option<Vec<String>> {
    let mut cfg = CfgLine {
        sat,
        su: (None, Some(86400i64 << 32)),
        si: (Some(1000i64 << 32), Some(1000i64 << 32)),
        ac: None,
        st: 0.010,
        sot: 2.0,
        sol: 1.0,
        sft: 0.0,
        sfl: 0.0,
        sm: 200e-6,
        sd: 8.0,
        ms: 495e-6,
        startup: false,
        acc: 0,
        fo: 0.0,
        df: 0.0,
    };
    let so = |c: f64| format!("steer_offset c={} fd={}", f64hex(c), f64hex(0.0));
    match i {
        // F-C01a: accumulated threshold saturated at NtpDuration::MAX, three steps of 2^30 s
        0 => {
            cfg.si = (None, None);
            cfg.ac = Some(i64::MAX);
            Some(vec![cfg.line(), so(1073741824.0), so(1073741824.0), so(1073741824.0)])
        }
        // the project's own test: 1800 s accumulated, 3 steps of 700 s
        1 => {
            cfg.ac = Some(1800i64 << 32);
            Some(vec![cfg.line(), so(700.0), so(-700.0), so(700.0)])
        }
        // exactly at the single-step threshold (strict inequality)
        2 => Some(vec![cfg.line(), so(999.9999999), so(1000.0)]),
        // startup: backwards one day
        3 => {
            cfg.startup = true;
            Some(vec![cfg.line(), so(-86399.0), so(-86400.0)])
        }
        // -2^31 s converts to i64::MIN: abs overflow (pre-fix) / saturation (post-fix)
        4 => {
            cfg.si = (Some(1000i64 << 32), None);
            Some(vec![cfg.line(), so(-2147483648.0)])
        }
        // backward threshold i64::MIN: `-v` overflow
        5 => {
            cfg.si = (None, Some(i64::MIN));
            Some(vec![cfg.line(), so(-5.0)])
        }
        // slew, then end of slew; frequency clamp with an absurd kernel frequency
        6 => {
            cfg.fo = 0.5;
            Some(vec![cfg.line(), so(0.005), "time_update".to_string(), format!("steer_freq c={}", f64hex(1e300))])
        }
        _ => None,
    }
}

fn within_i128(t: (Option<i64>, Option<i64>), d: i64) -> bool {
    t.0.map_or(true, |v| (d as i128) < v as i128) && t.1.map_or(true, |v| (d as i128) > -(v as i128))
}

fn tame(x: f64) -> bool {
    x.is_finite() && x.abs() < 1e100
}

struct Exec {
    log: Arc<Mutex<Vec<Call>>>,
    ctrl: Option<KalmanClockController<RecClock>>,
    cfg: Option<CfgLine>,
    // oracle's own reference state
    ref_startup: bool,
    ref_acc: i128,
    key: String,
    interesting: bool,
}

enum EndKind {
    Ok,
    Exit,
    Panic,
}

impl Exec {
    fn new() -> Exec {
        Exec {
            log: Arc::new(Mutex::new(vec![])),
            ctrl: None,
            cfg: None,
            ref_startup: true,
            ref_acc: 0,
            key: String::new(),
            interesting: false,
        }
    }

    fn set_cfg(&mut self, w: &[&str]) {
        let cfg = CfgLine::parse(w);
        self.log.lock().unwrap().clear();
        self.ctrl = Some(cfg.build(&self.log));
        self.ref_startup = cfg.startup;
        self.ref_acc = cfg.acc as i128;
        self.cfg = Some(cfg);
    }

    /// run `f` on the controller under catch_unwind; returns how it ended and the clock calls it made
    fn call<F: FnOnce(&mut KalmanClockController<RecClock>)>(&mut self, f: F) -> (EndKind, Vec<Call>) {
        self.log.lock().unwrap().clear();
        let ctrl = self.ctrl.as_mut().expect("cfg first");
        let r = catch_unwind(AssertUnwindSafe(|| f(ctrl)));
        let calls = self.log.lock().unwrap().clone();
        let end = match r {
            Ok(()) => EndKind::Ok,
            Err(_) => {
                if common::last_panic().starts_with("Threshold exceeded") {
                    EndKind::Exit
                } else {
                    EndKind::Panic
                }
            }
        };
        (end, calls)
    }

    fn obs(&self, end: &EndKind, calls: &[Call]) -> String {
        let evs: Vec<String> = calls
            .iter()
            .map(|c| match c {
                Call::Disable => "disable".to_string(),
                Call::Step(d) => {
                    let (s, n) = d.as_seconds_nanos();
                    format!("step:{}:{}:{}", raw(*d), s, n)
                }
                Call::SetFreq(f) => format!("setfreq:{}", f64hex(*f)),
            })
            .collect();
        let evs = common::comma_list(&evs);
        let c = self.ctrl.as_ref().unwrap();
        match end {
            EndKind::Ok => format!(
                "{} end=ok startup={} acc={} fo={} df={}",
                evs,
                c.in_startup as u8,
                raw(c.timedata.accumulated_steps),
                f64hex(c.freq_offset),
                f64hex(c.desired_freq)
            ),
            EndKind::Exit => format!("{} end=exit", evs),
            EndKind::Panic => format!("{} end=panic", evs),
        }
    }

    /// the property, evaluated on what the clock saw (no model involved)
    fn oracle(&mut self, run: &mut Run, end: &EndKind, calls: &[Call], tame_inputs: bool) {
        let cfg = self.cfg.clone().unwrap();
        let mut stepped = false;
        for c in calls {
            match c {
                Call::Step(d) => {
                    stepped = true;
                    let d = raw(*d);
                    if self.ref_startup {
                        run.hit("step-startup");
                        self.key.push('S');
                        if !within_i128(cfg.su, d) {
                            run.oracle_fail("step_within_startup", "", &format!("startup step {} outside {:?}", d, cfg.su));
                        }
                    } else {
                        run.hit("step-later");
                        self.key.push('s');
                        if !within_i128(cfg.si, d) {
                            run.oracle_fail("step_within_single", "", &format!("step {} outside {:?}", d, cfg.si));
                        }
                        self.ref_acc += (d as i128).abs();
                        if let Some(v) = cfg.ac {
                            if self.ref_acc > v as i128 {
                                run.oracle_fail(
                                    "accumulated_within",
                                    &format!("threshold_is_max={}", (v == i64::MAX) as u8),
                                    &format!("sum of |post-startup steps| = {} exceeds {}", self.ref_acc, v),
                                );
                            }
                        }
                    }
                    self.interesting = true;
                }
                Call::SetFreq(f) => {
                    run.hit("setfreq");
                    if cfg.ms >= 0.0 {
                        if f.is_nan() {
                            if tame_inputs {
                                run.oracle_fail("freq_not_nan", "", "NaN frequency applied although all inputs are finite");
                            } else {
                                run.hit("setfreq-nan-from-nan");
                            }
                        } else if !(-cfg.ms <= *f && *f <= cfg.ms) {
                            run.oracle_fail("freq_within_max", "", &format!("set_frequency({:e}) outside +-{:e}", f, cfg.ms));
                        } else if f.abs() == cfg.ms {
                            run.hit("setfreq-clamped");
                            self.key.push('C');
                            self.interesting = true;
                        } else {
                            self.key.push('f');
                        }
                    }
                }
                Call::Disable => {}
            }
        }
        match end {
            EndKind::Exit => {
                run.hit("exit");
                self.key.push('X');
                self.interesting = true;
                if stepped {
                    run.oracle_fail("exit_instead_of_step", "", "the clock was stepped although the threshold check stopped the daemon");
                }
            }
            EndKind::Panic => {
                run.hit("end-panic");
                self.key.push('P');
            }
            EndKind::Ok => {}
        }
    }

    fn exec_op(&mut self, op: &str, run: &mut Run) -> bool {
        run.begin_op(op);
        let w: Vec<&str> = op.split_whitespace().collect();
        let f = |k: &str| f64unhex(kv(&w[1..], k).expect("key")).expect("hex");
        match w[0] {
            "cfg" => {
                self.set_cfg(&w[1..]);
                run.end_op("ok");
                true
            }
            "steer_offset" => {
                let (c, fd) = (f("c"), f("fd"));
                let cfg = self.cfg.clone().unwrap();
                let (fo0, df0) = {
                    let k = self.ctrl.as_ref().unwrap();
                    (k.freq_offset, k.desired_freq)
                };
                let (startup0, acc0) = (self.ref_startup, self.ref_acc);
                let (end, calls) = self.call(|k| {
                    k.steer_offset(c, fd);
                });
                let tame_in = tame(c) && tame(fd) && tame(fo0) && tame(df0) && fo0 > -1.0 && tame(cfg.sm) && tame(cfg.sd);
                self.oracle(run, &end, &calls, tame_in);
                // "when a correction would violate a threshold the daemon stops instead of stepping"
                if c.abs() > cfg.st && c.is_finite() {
                    let d = raw(NtpDuration::from_seconds(c));
                    let violates = if startup0 {
                        !within_i128(cfg.su, d)
                    } else {
                        !within_i128(cfg.si, d) || cfg.ac.map_or(false, |v| acc0 + (d as i128).abs() > v as i128)
                    };
                    let stepped = calls.iter().any(|x| matches!(x, Call::Step(_)));
                    match end {
                        EndKind::Panic => {}
                        EndKind::Exit if !violates => {
                            run.oracle_fail("exit_only_on_violation", "", &format!("daemon stopped although step {} is within all thresholds", d));
                        }
                        EndKind::Ok if violates || !stepped => {
                            // (violations of executed steps are reported by the step clauses above)
                            if !stepped {
                                run.oracle_fail("jump_steps_or_exits", "", "change above the step threshold neither stepped nor stopped");
                            }
                        }
                        _ => {}
                    }
                } else if matches!(end, EndKind::Ok) {
                    // a slew was started
                    run.hit("slew");
                    self.key.push('w');
                    let k = self.ctrl.as_ref().unwrap();
                    if cfg.sm >= 0.0 && cfg.sd > 0.0 && !c.is_nan() {
                        if !(k.desired_freq.abs() <= cfg.sm) {
                            run.oracle_fail("slew_within_max", "", &format!("slew frequency {:e} exceeds {:e}", k.desired_freq, cfg.sm));
                        } else if k.desired_freq.abs() == cfg.sm {
                            run.hit("slew-at-max");
                            self.key.push('M');
                            self.interesting = true;
                        }
                    }
                }
                let o = self.obs(&end, &calls);
                run.end_op(&o);
                matches!(end, EndKind::Ok)
            }
            "steer_freq" => {
                let c = f("c");
                let fo0 = self.ctrl.as_ref().unwrap().freq_offset;
                let (end, calls) = self.call(|k| {
                    k.steer_frequency(c);
                });
                self.oracle(run, &end, &calls, tame(c) && tame(fo0) && fo0 > -1.0);
                let o = self.obs(&end, &calls);
                run.end_op(&o);
                matches!(end, EndKind::Ok)
            }
            "time_update" => {
                let (fo0, df0) = {
                    let k = self.ctrl.as_ref().unwrap();
                    (k.freq_offset, k.desired_freq)
                };
                let (end, calls) = self.call(|k| {
                    k.time_update();
                });
                self.oracle(run, &end, &calls, tame(fo0) && tame(df0) && fo0 > -1.0);
                let o = self.obs(&end, &calls);
                run.end_op(&o);
                matches!(end, EndKind::Ok)
            }
            "check" => {
                let c = f("c");
                let (end, calls) = self.call(|k| {
                    k.check_offset_steer(c);
                });
                if !calls.is_empty() {
                    run.oracle_fail("check_makes_no_clock_call", "", "check_offset_steer touched the clock");
                }
                let k = self.ctrl.as_ref().unwrap();
                let o = match end {
                    EndKind::Ok => {
                        // the oracle's reference accumulates what the code accumulated for a step it allowed
                        let d = raw(NtpDuration::from_seconds(c));
                        if !self.ref_startup {
                            self.ref_acc += (d as i128).abs();
                        }
                        format!("end=ok d={} acc={}", d, raw(k.timedata.accumulated_steps))
                    }
                    EndKind::Exit => {
                        run.hit("check-exit");
                        self.key.push('x');
                        "end=exit".to_string()
                    }
                    EndKind::Panic => "end=panic".to_string(),
                };
                run.end_op(&o);
                matches!(end, EndKind::Ok)
            }
            "msg" => self.exec_msg(op, &w, run),
            _ => {
                run.end_op("bad-op");
                true
            }
        }
    }

    /// `msg t=<secs> id=<i> u=<0|1> so=.. sf=.. sov=.. sfv=.. sc=.. sd=.. leap=<0..3>` (+ read-back `est=..`)
    fn exec_msg(&mut self, _op: &str, w: &[&str], run: &mut Run) -> bool {
        let f = |k: &str| f64unhex(kv(&w[1..], k).expect("key")).expect("hex");
        let id = ClockId(kv(&w[1..], "id").unwrap().parse().unwrap());
        let usable = kv(&w[1..], "u").unwrap() != "0";
        let leap = match kv(&w[1..], "leap").unwrap() {
            "0" => NtpLeapIndicator::NoWarning,
            "1" => NtpLeapIndicator::Leap61,
            "2" => NtpLeapIndicator::Leap59,
            _ => NtpLeapIndicator::Unknown,
        };
        let secs: u64 = kv(&w[1..], "t").unwrap().parse().unwrap();
        let time = NtpTimestamp::from_fixed_int(secs << 32);
        let snap = SourceSnapshot {
            index: id,
            state: KalmanState {
                state: Vector::new_vector([f("so"), f("sf")]),
                uncertainty: Matrix::new([[f("sov"), f("sc")], [f("sc"), f("sfv")]]),
                time,
            },
            wander: 1e-16,
            delay: f("sd"),
            period: None,
            source_uncertainty: NtpDuration::from_seconds(0.0),
            source_delay: NtpDuration::from_seconds(0.001),
            leap_indicator: leap,
            last_update: time,
        };
        {
            let k = self.ctrl.as_mut().unwrap();
            k.sources.entry(id).or_insert((None, false));
            k.source_update(id, usable);
        }
        // read the combined estimate back: the first half of `update_clock` on a clone
        let est: Option<[f64; 4]> = 'probe: {
            let mut p = self.ctrl.as_ref().unwrap().clone();
            p.sources.get_mut(&id).unwrap().0 = Some(snap);
            if p
                .sources
                .iter()
                .filter_map(|(_, (state, _))| state.map(|v| v.state.time))
                .any(|sourcetime| time - sourcetime < NtpDuration::ZERO)
            {
                run.hit("msg-skipped-future-source");
                break 'probe None;
            }
            for (state, _) in p.sources.values_mut() {
                if let Some(s) = state {
                    s.state = s.state.progress_time(time, s.wander, s.period);
                }
            }
            let candidates: Vec<_> = p
                .sources
                .iter()
                .filter_map(|(_, (state, usable))| if *usable { state.as_ref() } else { None })
                .copied()
                .collect();
            let selection = select::select(&p.synchronization_config, &p.algo_config, &candidates);
            combine(&selection, &p.algo_config).map(|c| {
                [
                    c.estimate.offset(),
                    c.estimate.frequency(),
                    c.estimate.offset_variance(),
                    c.estimate.frequency_variance(),
                ]
            })
        };
        let (fo0, df0) = {
            let k = self.ctrl.as_ref().unwrap();
            (k.freq_offset, k.desired_freq)
        };
        let (end, calls) = self.call(|k| {
            k.source_message(id, KalmanSourceMessage { inner: snap });
        });
        let tame_in = est.map_or(true, |e| e.iter().all(|x| tame(*x))) && tame(fo0) && tame(df0) && fo0 > -1.0;
        self.oracle(run, &end, &calls, tame_in);
        match est {
            Some(_) => {
                run.hit("msg-estimate");
                self.key.push('e');
                if matches!(end, EndKind::Ok) {
                    self.ref_startup = false;
                }
            }
            None => {
                run.hit("msg-no-consensus");
                self.key.push('n');
                if !calls.is_empty() {
                    run.oracle_fail("no_consensus_no_steer", "", "clock touched without a combined estimate");
                }
            }
        }
        // the op line handed to the model: the source fields are dropped, the estimate is added
        let base: Vec<&str> = w.iter().copied().filter(|x| !x.starts_with("est=") && !x.starts_with("eo=") && !x.starts_with("ef=") && !x.starts_with("eov=") && !x.starts_with("efv=")).collect();
        let line = match est {
            None => format!("{} est=0", base.join(" ")),
            Some(e) => format!(
                "{} est=1 eo={} ef={} eov={} efv={}",
                base.join(" "),
                f64hex(e[0]),
                f64hex(e[1]),
                f64hex(e[2]),
                f64hex(e[3])
            ),
        };
        let o = self.obs(&end, &calls);
        run.end_op_as(&line, &o);
        matches!(end, EndKind::Ok)
    }
}

fn exec_case(ops: &[String], run: &mut Run) {
    let mut ex = Exec::new();
    for op in ops {
        if !ex.exec_op(op, run) {
            // exit / panic: the process is gone; the rest of the case is not executed
            break;
        }
    }
    if ex.interesting {
        let key = ex.key.clone();
        run.nontrivial(&key);
    }
}

fn gen_msgs_case(rng: &mut Rng) -> Vec<String> {
    let sat = sat_ops();
    let mut cfg = gen_cfg(rng, sat, false);
    // keep the algorithm limits sane here: this stream is about histories, not about odd limits
    cfg.sot = 2.0;
    cfg.sol = 1.0;
    cfg.df = 0.0;
    cfg.fo = (rng.f64_unit() - 0.5) * 1e-4;
    cfg.ms = *rng.pick(&[495e-6, 100e-6, 1e-6]);
    cfg.startup = rng.chance(4, 5);
    if cfg.startup {
        cfg.acc = 0;
    }
    let mut ops = vec![cfg.line()];
    let nsrc = rng.usize(1, 3);
    let n = rng.usize(2, 12);
    // the "true" offset of the local clock, which the sources report with noise; it follows the steps
    let mut truth = match rng.below(6) {
        0 => 0.0,
        1 => 0.004,
        2 => gen_change(rng, &cfg),
        3 => 700.0,
        4 => -3600.0,
        _ => (rng.f64_unit() - 0.5) * 4000.0,
    };
    if !truth.is_finite() || truth.abs() > 1e9 {
        truth = 1700.0;
    }
    let mut now: u64 = 1000;
    for _ in 0..n {
        if rng.chance(1, 10) {
            ops.push("time_update".to_string());
            continue;
        }
        now += *rng.pick(&[0u64, 1, 2, 16, 64, 1024]);
        let id = rng.usize(0, nsrc - 1);
        let usable = !rng.chance(1, 8);
        // most sources agree with the truth; now and then one lies
        let off = if rng.chance(1, 8) { truth + (rng.f64_unit() - 0.5) * 10.0 } else { truth + (rng.f64_unit() - 0.5) * 2e-4 };
        let freq = (rng.f64_unit() - 0.5) * *rng.pick(&[1e-6, 1e-4, 2e-3]);
        let ovar = *rng.pick(&[1e-10, 1e-8, 1e-6, 1e-4]);
        let fvar = *rng.pick(&[1e-16, 1e-12, 1e-8]);
        let delay = *rng.pick(&[0.001, 0.01, 0.1, 2.0]);
        let leap = rng.below(8).min(3);
        ops.push(format!(
            "msg t={} id={} u={} so={} sf={} sov={} sfv={} sc={} sd={} leap={}",
            now,
            id,
            usable as u8,
            f64hex(off),
            f64hex(freq),
            f64hex(ovar),
            f64hex(fvar),
            f64hex(0.0),
            f64hex(delay),
            if leap == 3 { 3 } else { leap }
        ));
        // after a (likely) step the sources see the corrected clock; now and then the world moves again
        if rng.chance(1, 2) {
            truth = if rng.chance(1, 4) { gen_change(rng, &cfg) } else { (rng.f64_unit() - 0.5) * 0.001 };
            if !truth.is_finite() || truth.abs() > 1e9 {
                truth = -700.0;
            }
        }
    }
    ops
}

#[test]
fn entry() {
    let stream = std::env::var("VERIF_STREAM").unwrap_or_default();
    match stream.as_str() {
        "steer_unit" => common::drive(
            "steer_unit",
            "real KalmanClockController over a recording clock, private state set per case; 1-8 ops of steer_offset/check_offset_steer/steer_frequency/time_update with change at thresholds +-1 unit/ulp, at +-step_threshold, +-2^31 s, NaN/inf, finite/infinite/asymmetric/negative thresholds; witnesses first; non-trivial = a step, an exit, a clamped frequency or a slew at the maximum happened; distinct by event-kind string",
            |rng, idx, _run| gen_unit_case(rng, false, Some(idx)),
            exec_case,
        ),
        "steer_freq" => common::drive(
            "steer_freq",
            "same machinery weighted for C02: extreme change / kernel frequency / limits (0, -0, subnormal, 1e300, inf, NaN, negative), slews and end-of-slew; non-trivial as in steer_unit",
            |rng, idx, _run| gen_unit_case(rng, true, if idx < 7 { Some(idx) } else { None }),
            exec_case,
        ),
        "steer_msgs" => common::drive(
            "steer_msgs",
            "source_message with hand-made snapshots of 1-3 sources (agreeing, lying, unusable, unsynchronised) through the real update_clock; combined estimate read back from a clone and given to the model; interleaved time_update; non-trivial as in steer_unit",
            |rng, _idx, _run| gen_msgs_case(rng),
            exec_case,
        ),
        other => panic!("unknown VERIF_STREAM {:?}", other),
    }
}
