//! verification harness module included into `ntp-proto/src/algorithm/kalman/source.rs` (guarded hook).
