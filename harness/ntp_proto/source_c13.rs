//! verification harness module included into `ntp-proto/src/source.rs` (guarded hook).
//! Child of `crate::source`, so it sees `NtpSource`'s private fields.
//!
//! Streams (selected with VERIF_STREAM):
//!   c13_stash  — `CookieStash` store/get/gap/len op sequences
//!   c13_timer  — a real NTS `NtpSource`: cookies stored into its stash, `handle_timer` polls; the sent
//!                packet is parsed (raw extension-field walk) for the cookie used and the number of
//!                cookie + placeholder fields
#![allow(clippy::all, clippy::pedantic)]

#[path = "../common/mod.rs"]
mod common;

use super::super::*;
use crate::cookiestash::CookieStash;
use crate::packet::AesSivCmac256;
use common::{hex, unhex, Rng, Run};
use std::collections::VecDeque;

pub(super) struct RecController {
    pub poll: PollInterval,
    pub measurements: Vec<Measurement>,
    pub usable: Vec<bool>,
}

impl Default for RecController {
    fn default() -> Self {
        RecController {
            poll: PollInterval::default(),
            measurements: vec![],
            usable: vec![],
        }
    }
}

impl SourceController for RecController {
    fn handle_measurement(&mut self, m: Measurement) {
        self.measurements.push(m);
    }
    fn set_usable(&mut self, usable: bool) {
        self.usable.push(usable);
    }
    fn desired_poll_interval(&self) -> PollInterval {
        self.poll
    }
    fn observe(&self) -> crate::ObservableSourceTimedata {
        crate::ObservableSourceTimedata::default()
    }
}

/// cookie generator: unique content (a counter in the first bytes) so "used at most once" is checkable
fn gen_cookie(rng: &mut Rng, counter: &mut u32) -> Vec<u8> {
    *counter += 1;
    let len = match rng.below(20) {
        0 => 0,
        1 => 1,
        2 => 2,
        3 => 3,
        4..=9 => 100 + rng.usize(0, 8),
        10 => 90 + rng.usize(0, 2),
        11 => 91,
        12 => 103 + rng.usize(0, 2), // 724/103 = 7, 724/104 = 6
        13 => 120 + rng.usize(0, 2), // 724/120 = 6, 724/121 = 5
        14 => 144 + rng.usize(0, 2),
        15 => 181 + rng.usize(0, 1),
        16 => 241 + rng.usize(0, 1),
        17 => 362 + rng.usize(0, 1),
        18 => 724 + rng.usize(0, 1),
        _ => rng.usize(4, 1100),
    };
    let mut c = rng.bytes(len);
    let tag = counter.to_be_bytes();
    for (i, b) in tag.iter().enumerate() {
        if i < c.len() {
            c[i] = *b;
        }
    }
    c
}

fn gen_stash_case(rng: &mut Rng, _idx: u64, _run: &Run) -> Vec<String> {
    let n = rng.usize(1, 40);
    let mut ops = vec![];
    let mut counter = 0u32;
    // bias phases: fill-heavy, drain-heavy, mixed
    let phase = rng.below(3);
    for _ in 0..n {
        let p_store = match phase {
            0 => 70,
            1 => 30,
            _ => 50,
        };
        let r = rng.below(100);
        if r < p_store {
            let c = gen_cookie(rng, &mut counter);
            let c = if c.len() > 12 { c[..12].to_vec() } else { c };
            ops.push(format!("store {}", hex(&c)));
        } else if r < p_store + 20 {
            ops.push("get".to_string());
        } else if r < p_store + 25 {
            ops.push("gap".to_string());
        } else {
            ops.push("len".to_string());
        }
    }
    ops
}

fn exec_stash_case(ops: &[String], run: &mut Run) {
    let mut stash = CookieStash::default();
    // reference queue for the oracle: property evaluated directly on the implementation
    let mut reference: VecDeque<Vec<u8>> = VecDeque::new();
    let mut key = String::new();
    let mut gets_some = 0;
    for op in ops {
        run.begin_op(op);
        let w: Vec<&str> = op.split_whitespace().collect();
        match w.as_slice() {
            ["store", h] => {
                let c = unhex(h).expect("hex");
                stash.store(c.clone());
                reference.push_back(c);
                if reference.len() > 8 {
                    reference.pop_front();
                    run.hit("store-evict");
                } else {
                    run.hit("store");
                }
                key.push('s');
                run.end_op("ok");
            }
            ["get"] => {
                let got = stash.get();
                let want = reference.pop_front();
                if got != want {
                    run.oracle_fail(
                        "oldest_first_once",
                        "",
                        &format!("get returned {:?}, oldest held cookie is {:?}", got.as_ref().map(|c| hex(c)), want.as_ref().map(|c| hex(c))),
                    );
                }
                match got {
                    None => {
                        run.hit("get-none");
                        key.push('n');
                        run.end_op("none")
                    }
                    Some(c) => {
                        gets_some += 1;
                        run.hit("get-some");
                        key.push('g');
                        run.end_op(&format!("some {}", hex(&c)))
                    }
                }
            }
            ["gap"] => {
                let g = stash.gap();
                if g as usize != 8 - reference.len() {
                    run.oracle_fail("gap_is_missing", "", &format!("gap {} but {} held", g, reference.len()));
                }
                run.end_op(&g.to_string());
            }
            ["len"] => {
                let l = stash.len();
                if l != reference.len() || l > 8 {
                    run.oracle_fail("at_most_eight", "", &format!("len {} but reference holds {}", l, reference.len()));
                }
                run.end_op(&l.to_string());
            }
            _ => run.end_op("bad-op"),
        }
    }
    if gets_some > 0 {
        run.nontrivial(&key);
    }
}

pub(super) fn nts_source(proto: ProtocolVersion) -> NtpSource<RecController> {
    let mut source = NtpSource::test_ntp_source(RecController::default());
    source.protocol_version = proto;
    source.nts = Some(Box::new(SourceNtsData {
        cookies: CookieStash::default(),
        c2s: Box::new(AesSivCmac256::new([7; 32].into())),
        s2c: Box::new(AesSivCmac256::new([9; 32].into())),
    }));
    source
}

/// raw walk over the extension fields of a serialised request: (first cookie field body as sent,
/// number of cookie + placeholder fields)
pub(super) fn cookie_fields(packet: &[u8]) -> (Option<Vec<u8>>, usize, usize) {
    let mut off = 48;
    let mut cookie = None;
    let mut cookies = 0;
    let mut placeholders = 0;
    while off + 4 <= packet.len() {
        let ty = u16::from_be_bytes([packet[off], packet[off + 1]]);
        let len = u16::from_be_bytes([packet[off + 2], packet[off + 3]]) as usize;
        if len < 4 || off + len > packet.len() {
            break;
        }
        match ty {
            0x0204 => {
                cookies += 1;
                if cookie.is_none() {
                    cookie = Some(packet[off + 4..off + len].to_vec());
                }
            }
            0x0304 => placeholders += 1,
            0x0404 => break,
            _ => {}
        }
        off += (len + 3) & !3;
    }
    (cookie, cookies, placeholders)
}

fn gen_timer_case(rng: &mut Rng, _idx: u64, _run: &Run) -> Vec<String> {
    let mut ops = vec![];
    let proto = *rng.pick(&["v4", "v5", "upgrading", "upgraded"]);
    ops.push(format!("cfg proto={}", proto));
    let n = rng.usize(2, 30);
    let mut counter = 0u32;
    let phase = rng.below(3);
    for _ in 0..n {
        let p_store = match phase {
            0 => 75,
            1 => 40,
            _ => 55,
        };
        if rng.below(100) < p_store {
            let k = if rng.chance(1, 4) { rng.usize(1, 10) } else { 1 };
            for _ in 0..k {
                let c = gen_cookie(rng, &mut counter);
                ops.push(format!("store {}", hex(&c)));
            }
        } else {
            ops.push("timer".to_string());
        }
    }
    ops.push("timer".to_string());
    ops
}

fn exec_timer_case(ops: &[String], run: &mut Run) {
    let mut source = nts_source(ProtocolVersion::V4);
    let mut reference: VecDeque<Vec<u8>> = VecDeque::new();
    let mut sent_before: std::collections::HashSet<Vec<u8>> = Default::default();
    let mut key = String::new();
    let mut sends = 0;
    for op in ops {
        run.begin_op(op);
        let w: Vec<&str> = op.split_whitespace().collect();
        match w.as_slice() {
            ["cfg", rest @ ..] => {
                let proto = match common::kv(rest, "proto") {
                    Some("v4") => ProtocolVersion::V4,
                    Some("v5") => ProtocolVersion::V5,
                    Some("upgrading") => ProtocolVersion::V4UpgradingToV5 { tries_left: 8 },
                    Some("upgraded") => ProtocolVersion::UpgradedToV5,
                    _ => ProtocolVersion::V4,
                };
                source = nts_source(proto);
                // the model driver treats `cfg` as a no-op on the stash
                run.end_op("ok");
            }
            ["store", h] => {
                let c = unhex(h).expect("hex");
                source.nts.as_mut().unwrap().cookies.store(c.clone());
                reference.push_back(c);
                if reference.len() > 8 {
                    reference.pop_front();
                }
                key.push('s');
                run.end_op("ok");
            }
            ["timer"] => {
                // this stream is about cookies only: keep the reachability reset out of the way
                source.tries = 0;
                let held_before = source.nts.as_ref().unwrap().cookies.len();
                let actions: Vec<NtpSourceAction> = source.handle_timer().collect();
                let mut obs = String::from("none");
                let oldest = reference.pop_front();
                for a in &actions {
                    match a {
                        NtpSourceAction::Reset => {
                            obs = "reset".to_string();
                            run.hit("timer-reset");
                            key.push('r');
                            // a reset is only right when nothing is held, or the cookie is too large
                            if let Some(c) = &oldest {
                                if c.len() <= 724 {
                                    run.oracle_fail("request_asks_gap", "", &format!("reset with a {}-byte cookie held", c.len()));
                                }
                            }
                        }
                        NtpSourceAction::Send(buf) => {
                            let (cookie, ncookies, nplace) = cookie_fields(buf);
                            let cookie = cookie.unwrap_or_default();
                            // the field body is the cookie padded to 4 bytes (and to the minimum field size)
                            let want = oldest.clone().unwrap_or_default();
                            let body_ok = cookie.len() >= want.len() && cookie[..want.len()] == want[..];
                            if oldest.is_none() || !body_ok {
                                run.oracle_fail("oldest_first_once", "", &format!("sent cookie {} but oldest held is {:?}", hex(&cookie), oldest.as_ref().map(|c| hex(c))));
                            }
                            if want.len() >= 4 && !sent_before.insert(want.clone()) {
                                run.oracle_fail("oldest_first_once", "", &format!("cookie {} sent twice", hex(&want)));
                            }
                            if ncookies != 1 {
                                run.oracle_fail("oldest_first_once", "", &format!("{} cookie fields in one request", ncookies));
                            }
                            let n = ncookies + nplace;
                            let missing = 8 - (held_before.saturating_sub(1)).min(8);
                            let limit = (724 / want.len().max(1)).min(255);
                            if n != missing.min(limit) {
                                run.oracle_fail("request_asks_gap", "", &format!("asked for {} cookies, missing {}, size limit {}", n, missing, limit));
                            }
                            if buf.len() > 1024 {
                                run.oracle_fail("fits_buffer", "", &format!("request of {} bytes", buf.len()));
                            }
                            sends += 1;
                            run.hit(if n == missing { "timer-send-full-gap" } else { "timer-send-size-limited" });
                            key.push_str(&format!("t{}", n));
                            obs = format!("send {} {}", hex(&want), n);
                        }
                        _ => {}
                    }
                }
                run.end_op(&obs);
            }
            _ => run.end_op("bad-op"),
        }
    }
    if sends > 0 {
        run.nontrivial(&key);
    }
}

#[test]
fn entry() {
    let stream = std::env::var("VERIF_STREAM").unwrap_or_default();
    match stream.as_str() {
        "c13_stash" => common::drive(
            "c13_stash",
            "op sequences (1-40 ops: store/get/gap/len, fill-, drain- and mixed-biased) on CookieStash; non-trivial = at least one get returned a cookie; distinct by op-kind string",
            gen_stash_case,
            exec_stash_case,
        ),
        "c13_timer" => common::drive(
            "c13_timer",
            "NTS NtpSource (v4/v5/upgrading/upgraded): cookies of boundary lengths stored, handle_timer polls; non-trivial = at least one request sent; distinct by op-kind + requested-count string",
            gen_timer_case,
            exec_timer_case,
        ),
        other => panic!("unknown VERIF_STREAM {:?}", other),
    }
}
