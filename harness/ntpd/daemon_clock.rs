//! verification harness module included into `ntpd/src/daemon/clock.rs` (guarded hook).
