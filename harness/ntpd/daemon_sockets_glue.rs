//! verification harness module included into `ntpd/src/daemon/sockets.rs` (guarded hook), property C38.
//! Grandchild of `crate::daemon::sockets`: sees `write_json`, `read_json`, `MAX_JSON_MESSAGE_SIZE`.
//!
//! Streams (VERIF_STREAM):
//!   c38_framing — `write_json` of generated JSON values (the emitted bytes are compared with the model's
//!                 `be64(len) ++ payload`) and `read_json` on byte streams (well-formed frames, truncated
//!                 frames, oversize announcements, junk): result kind, bytes consumed, buffer length
//!   c38_values  — single values through `write_json` -> tokio duplex (small capacity) -> `read_json`:
//!                 finite f64 (model: identity), NtpDuration (model: from_seconds(to_seconds d)),
//!                 u64 (model: identity)
#![allow(clippy::all, clippy::pedantic)]

#[path = "../common/mod.rs"]
mod common;

use super::super::*;
use common::{f64hex, f64unhex, hex, kv, unhex, Rng, Run};
use ntp_proto::{NtpDuration, NtpTimestamp};

const LIMIT: u64 = 1 << 20;

fn ts_raw(t: NtpTimestamp) -> u64 {
    serde_json::to_value(t).unwrap()["timestamp"].as_u64().unwrap()
}
fn ts_from_raw(raw: u64) -> NtpTimestamp {
    serde_json::from_value(serde_json::json!({ "timestamp": raw })).unwrap()
}
fn dur_raw(d: NtpDuration) -> i64 {
    0u64.wrapping_sub(ts_raw(ts_from_raw(0) - d)) as i64
}
fn dur_from_raw(raw: i64) -> NtpDuration {
    ts_from_raw(raw as u64) - ts_from_raw(0)
}

fn rt() -> tokio::runtime::Runtime {
    tokio::runtime::Builder::new_current_thread().enable_all().build().unwrap()
}

// ---------------------------------------------------------------------------------- c38_framing

fn gen_json(rng: &mut Rng, depth: u32) -> serde_json::Value {
    use serde_json::Value;
    match rng.below(if depth >= 3 { 7 } else { 10 }) {
        0 => Value::Null,
        1 => Value::Bool(rng.chance(1, 2)),
        2 => Value::from(rng.next_u64() >> rng.below(64)),
        3 => Value::from(rng.next_u64() as i64 >> rng.below(64)),
        4 => {
            let f = f64::from_bits(rng.next_u64());
            if f.is_finite() { Value::from(f) } else { Value::from(0.5) }
        }
        5 | 6 => {
            let n = rng.usize(0, 12);
            Value::String((0..n).map(|_| *rng.pick(&['a', 'Z', '0', ' ', '"', '\\', '\n', 'é', '\u{1F552}', '/'])).collect())
        }
        7 | 8 => {
            let n = rng.usize(0, 4);
            Value::Array((0..n).map(|_| gen_json(rng, depth + 1)).collect())
        }
        _ => {
            let n = rng.usize(0, 4);
            let mut m = serde_json::Map::new();
            for i in 0..n {
                m.insert(format!("k{}", i), gen_json(rng, depth + 1));
            }
            Value::Object(m)
        }
    }
}

fn be64(n: u64) -> Vec<u8> {
    n.to_be_bytes().to_vec()
}

fn gen_framing_case(rng: &mut Rng, idx: u64, _run: &Run) -> Vec<String> {
    // boundary cases first: announced length exactly 2^20 (accepted), 2^20+1 (rejected), a written string
    // whose payload is exactly 2^20 / 2^20+1 bytes
    match idx {
        0 => return vec![format!("readgen size={} have={} kind=json", LIMIT, LIMIT)],
        1 => return vec![format!("readgen size={} have={} kind=json", LIMIT + 1, LIMIT + 1)],
        2 => return vec![format!("wstr n={}", LIMIT - 2)],
        3 => return vec![format!("wstr n={}", LIMIT - 1)],
        4 => return vec![format!("readgen size={} have=0 kind=junk", u64::MAX)],
        _ => {}
    }
    let n = rng.usize(1, 4);
    let mut ops = vec![];
    for _ in 0..n {
        match rng.below(12) {
            0..=3 => {
                let v = gen_json(rng, 0);
                ops.push(format!("write json={}", hex(serde_json::to_string(&v).unwrap().as_bytes())));
            }
            4..=6 => {
                // a frame built by hand: correct, truncated, with trailing bytes, or with non-JSON payload
                let v = gen_json(rng, 1);
                let mut payload = serde_json::to_vec(&v).unwrap();
                if rng.chance(1, 5) {
                    let k = rng.usize(1, 20);
                    payload = rng.bytes(k);
                }
                let announced = match rng.below(8) {
                    0 => payload.len() as u64 + rng.below(5) + 1, // announces more than there is
                    1 => (payload.len() as u64).saturating_sub(1), // announces less: payload cut short
                    _ => payload.len() as u64,
                };
                let mut s = be64(announced);
                s.extend(&payload);
                if rng.chance(1, 4) {
                    let extra = rng.usize(1, 9);
                    s.extend(rng.bytes(extra));
                }
                if rng.chance(1, 6) {
                    let cut = rng.usize(0, s.len());
                    s.truncate(cut);
                }
                ops.push(format!("read stream={}", hex(&s)));
            }
            7..=8 => {
                // oversize announcements followed by a little payload
                let announced = match rng.below(8) {
                    0 => LIMIT + 1,
                    1 => LIMIT + 2,
                    2 => 1 << 32,
                    3 => 1 << 63,
                    4 => u64::MAX,
                    5 => (1 << 20) | (1 << 56), // little-endian reading of a small number
                    _ => LIMIT + 1 + (rng.next_u64() >> rng.below(44)),
                };
                let mut s = be64(announced);
                let extra = rng.usize(0, 24);
                s.extend(rng.bytes(extra));
                ops.push(format!("read stream={}", hex(&s)));
            }
            9 => {
                let n = rng.usize(0, 12);
                let junk = rng.bytes(n);
                ops.push(format!("read stream={}", hex(&junk)));
            }
            10 => {
                let size = match rng.below(6) {
                    0 => LIMIT,
                    1 => LIMIT - 1,
                    2 => LIMIT + 1,
                    _ => rng.below(LIMIT + 4096),
                };
                let have = match rng.below(4) {
                    0 => size.min(LIMIT + 4096),
                    1 => size.saturating_sub(1).min(LIMIT + 4096),
                    2 => rng.below(64),
                    _ => (size + rng.below(16)).min(LIMIT + 4096),
                };
                ops.push(format!("readgen size={} have={} kind={}", size, have, rng.pick(&["json", "junk"])));
            }
            _ => {
                let n = match rng.below(6) {
                    0 => LIMIT - 2,
                    1 => LIMIT - 3,
                    2 => LIMIT - 1,
                    _ => rng.below(70000),
                };
                ops.push(format!("wstr n={}", n));
            }
        }
    }
    ops
}

/// the payload of `readgen`: `have` bytes; kind=json: the JSON string "aaa…" (have >= 2), else 0xff bytes
fn readgen_payload(have: usize, kind: &str) -> Vec<u8> {
    if kind == "json" && have >= 2 {
        let mut p = vec![b'a'; have];
        p[0] = b'"';
        p[have - 1] = b'"';
        p
    } else {
        vec![0xff; have]
    }
}

fn err_kind(e: &std::io::Error) -> &'static str {
    match e.kind() {
        std::io::ErrorKind::UnexpectedEof => "Eof",
        std::io::ErrorKind::InvalidInput => {
            let s = e.to_string();
            if s == "message too large" {
                "TooLarge"
            } else if s == "message size cannot be represented" {
                "Unrepresentable"
            } else {
                "Json"
            }
        }
        _ => "Other",
    }
}

/// `read_json::<serde_json::Value>` on a byte stream; returns the observation and evaluates the property's
/// "rejected before any payload is read" clause directly
fn do_read(rt: &tokio::runtime::Runtime, stream: Vec<u8>, run: &mut Run) -> String {
    let total = stream.len() as u64;
    let announced = if stream.len() >= 8 { Some(u64::from_be_bytes(stream[..8].try_into().unwrap())) } else { None };
    let mut cur = std::io::Cursor::new(stream);
    let mut buffer: Vec<u8> = Vec::new();
    let res: std::io::Result<serde_json::Value> = rt.block_on(read_json(&mut cur, &mut buffer));
    let consumed = cur.position();
    if let Some(a) = announced {
        if a > LIMIT {
            let rejected = matches!(&res, Err(e) if err_kind(e) == "TooLarge");
            if !rejected || consumed != 8 || !buffer.is_empty() || buffer.capacity() > 4096 {
                run.oracle_fail(
                    "reject_large",
                    "",
                    &format!(
                        "announced {} > 1 MiB: rejected={} consumed={} (must be 8) buffer len={} cap={}",
                        a, rejected, consumed, buffer.len(), buffer.capacity()
                    ),
                );
            }
            run.hit("read-too-large");
        } else if total - 8 >= a {
            // complete frame: must consume exactly the frame
            if consumed != 8 + a {
                run.oracle_fail("framing", "", &format!("complete frame of {} bytes: consumed {}", a, consumed));
            }
        }
    }
    match res {
        Ok(v) => {
            // the payload handed to the JSON parser is what is left in `buffer`
            if serde_json::from_slice::<serde_json::Value>(&buffer).ok().as_ref() != Some(&v) {
                run.oracle_fail("framing", "", "returned value is not the parse of the framed payload");
            }
            run.hit("read-ok");
            format!("ok consumed={} buflen={}", consumed, buffer.len())
        }
        Err(e) => {
            run.hit(&format!("read-{}", err_kind(&e)));
            format!("err:{} consumed={} buflen={}", err_kind(&e), consumed, buffer.len())
        }
    }
}

/// `write_json(value)`: emitted bytes; oracle: reading them back yields the value
fn do_write(rt: &tokio::runtime::Runtime, v: &serde_json::Value, run: &mut Run) -> (Vec<u8>, Vec<u8>) {
    let payload = serde_json::to_vec(v).unwrap();
    let mut out: Vec<u8> = Vec::new();
    rt.block_on(write_json(&mut out, v)).expect("write_json into a Vec");
    let mut cur = std::io::Cursor::new(out.clone());
    let mut buffer = Vec::new();
    let back: std::io::Result<serde_json::Value> = rt.block_on(read_json(&mut cur, &mut buffer));
    if payload.len() as u64 <= LIMIT {
        match back {
            Ok(b) if &b == v && cur.position() == out.len() as u64 => {}
            other => run.oracle_fail(
                "framing",
                "",
                &format!("read(write v) != v for a {}-byte payload: {:?}", payload.len(), other.map(|_| "different value or length").map_err(|e| e.to_string())),
            ),
        }
        run.hit("write-readable");
    } else {
        let rejected = matches!(&back, Err(e) if err_kind(e) == "TooLarge");
        if !rejected || cur.position() != 8 {
            run.oracle_fail("reject_large", "", &format!("written message of {} bytes: rejected={} consumed={}", payload.len(), rejected, cur.position()));
        }
        run.hit("write-too-large-for-reader");
    }
    (payload, out)
}

fn exec_framing_case(ops: &[String], run: &mut Run) {
    let rt = rt();
    let mut key = String::new();
    for op in ops {
        run.begin_op(op);
        let w: Vec<&str> = op.split_whitespace().collect();
        match w.first().copied() {
            Some("write") => {
                let v: serde_json::Value = match kv(&w, "json").and_then(unhex).and_then(|b| serde_json::from_slice(&b).ok()) {
                    Some(v) => v,
                    None => {
                        run.end_op("bad-op");
                        continue;
                    }
                };
                let (payload, out) = do_write(&rt, &v, run);
                key.push_str(&format!("w{}", payload.len().min(99)));
                // the payload (serde_json's rendering, external) is handed to the model
                run.end_op_as(&format!("write json={} payload={}", kv(&w, "json").unwrap(), hex(&payload)), &hex(&out));
            }
            Some("wstr") => {
                // a string of n 'a's: payload n+2 bytes; observation: header + length + digest of the rest
                let n: usize = match kv(&w, "n").and_then(|s| s.parse().ok()) {
                    Some(n) if n <= (LIMIT as usize) + 4096 => n,
                    _ => {
                        run.end_op("bad-op");
                        continue;
                    }
                };
                let v = serde_json::Value::String("a".repeat(n));
                let (payload, out) = do_write(&rt, &v, run);
                let body_ok = out.len() == payload.len() + 8 && out[8..] == payload[..];
                key.push_str("s");
                run.end_op(&format!("hdr={} total={} body={}", hex(&out[..8.min(out.len())]), out.len(), body_ok as u8));
            }
            Some("read") => {
                let stream = match kv(&w, "stream").and_then(unhex) {
                    Some(s) => s,
                    None => {
                        run.end_op("bad-op");
                        continue;
                    }
                };
                // JSON validity of the framed payload (external to the model) is computed here and handed over
                let json = if stream.len() >= 8 {
                    let a = u64::from_be_bytes(stream[..8].try_into().unwrap());
                    if a <= LIMIT && (stream.len() as u64 - 8) >= a {
                        serde_json::from_slice::<serde_json::Value>(&stream[8..8 + a as usize]).is_ok()
                    } else {
                        false
                    }
                } else {
                    false
                };
                let obs = do_read(&rt, stream, run);
                key.push_str(&obs[..obs.find(' ').unwrap_or(obs.len())]);
                run.end_op_as(&format!("read stream={} json={}", kv(&w, "stream").unwrap(), json as u8), &obs);
            }
            Some("readgen") => {
                let size: Option<u64> = kv(&w, "size").and_then(|s| s.parse().ok());
                let have: Option<u64> = kv(&w, "have").and_then(|s| s.parse().ok());
                let kind = kv(&w, "kind").unwrap_or("");
                match (size, have) {
                    (Some(size), Some(have)) if have <= LIMIT + 8192 && (kind == "json" || kind == "junk") => {
                        let mut s = be64(size);
                        s.extend(readgen_payload(have as usize, kind));
                        let obs = do_read(&rt, s, run);
                        key.push_str(&obs[..obs.find(' ').unwrap_or(obs.len())]);
                        run.end_op(&obs);
                    }
                    _ => run.end_op("bad-op"),
                }
            }
            _ => run.end_op("bad-op"),
        }
    }
    run.nontrivial(&key);
}

// ---------------------------------------------------------------------------------- c38_values

fn gen_values_case(rng: &mut Rng, idx: u64, _run: &Run) -> Vec<String> {
    // the design-time witness first (F-C38): 1.0715660391465826e-75
    if idx == 0 {
        return vec![format!("f64 {}", f64hex(1.0715660391465826e-75))];
    }
    let n = rng.usize(1, 6);
    (0..n)
        .map(|_| match rng.below(10) {
            0..=4 => {
                let f = match rng.below(6) {
                    0 => *rng.pick(&[0.0, -0.0, 1.0, -1.0, f64::MAX, f64::MIN, f64::MIN_POSITIVE, 5e-324, 0.1, 1e-9, 1e23, 1.0 / 3.0]),
                    1 => rng.f64_unit() * 1e-6,
                    2 => rng.f64_unit() * 1e6,
                    _ => f64::from_bits(rng.next_u64()),
                };
                let f = if f.is_finite() { f } else { 0.25 };
                format!("f64 {}", f64hex(f))
            }
            5..=7 => {
                let d: i64 = match rng.below(6) {
                    0 => *rng.pick(&[0i64, 1, -1, i64::MAX, i64::MIN, i64::MIN + 1, 1 << 32, -(1 << 32), (1 << 32) - 1, (1 << 53) + 1, i32::MAX as i64, 4294967295, 4294967297]),
                    1 => rng.range(-1_000_000, 1_000_000),
                    2 => rng.range(-(1 << 40), 1 << 40),
                    _ => rng.next_u64() as i64 >> rng.below(64),
                };
                format!("dur {}", d)
            }
            _ => format!("u64 {}", match rng.below(4) {
                0 => *rng.pick(&[0u64, 1, u64::MAX, i64::MAX as u64, i64::MAX as u64 + 1, 1 << 53, (1 << 53) + 1]),
                _ => rng.next_u64() >> rng.below(64),
            }),
        })
        .collect()
}

/// `buffer` is the caller's receive buffer, REUSED for every message of a case (as ntp-ctl, the metrics exporter or
/// any long-lived client would): a shorter message after a longer one must still be read correctly
async fn roundtrip<T>(value: &T, cap: usize, buffer: &mut Vec<u8>) -> std::io::Result<T>
where
    T: serde::Serialize + for<'a> serde::Deserialize<'a>,
{
    let (mut a, b) = tokio::io::duplex(cap);
    // the reading end is dropped as soon as the reader returns (e.g. with an error after the length prefix), so
    // a writer still blocked on a full pipe fails with BrokenPipe instead of waiting forever
    let reader = async move {
        let mut b = b;
        read_json::<T>(&mut b, buffer).await
    };
    let (w, r) = tokio::join!(write_json(&mut a, value), reader);
    let v = r?;
    w?;
    Ok(v)
}

fn exec_values_case(ops: &[String], run: &mut Run) {
    let rt = rt();
    // one receive buffer for the whole case: messages of different lengths follow each other
    let mut buffer: Vec<u8> = Vec::new();
    let mut key = String::new();
    for (i, op) in ops.iter().enumerate() {
        run.begin_op(op);
        let w: Vec<&str> = op.split_whitespace().collect();
        let cap = [1usize, 7, 8, 9, 64, 4096][i % 6];
        match w.as_slice() {
            ["f64", h] => {
                let x = match f64unhex(h) {
                    Some(x) if x.is_finite() => x,
                    _ => {
                        run.end_op("bad-op");
                        continue;
                    }
                };
                match rt.block_on(roundtrip(&x, cap, &mut buffer)) {
                    Ok(y) => {
                        if y.to_bits() != x.to_bits() {
                            let ulps = (y.to_bits() as i128 - x.to_bits() as i128).abs();
                            run.oracle_fail(
                                "f64_equal",
                                &format!("ulps={}", ulps.min(9)),
                                &format!("f64 {:e} ({:016x}) read back as {:e} ({:016x})", x, x.to_bits(), y, y.to_bits()),
                            );
                        }
                        key.push('f');
                        run.hit("f64");
                        run.end_op(&f64hex(y));
                    }
                    Err(e) => {
                        run.oracle_fail("value_read_back", &format!("op={}", i), &format!("a written value could not be read back with the reused buffer: {} (op {:?})", e, op));
                        run.end_op(&format!("err:{}", err_kind(&e)))
                    }
                }
            }
            ["dur", d] => {
                let raw: i64 = match d.parse() {
                    Ok(r) => r,
                    Err(_) => {
                        run.end_op("bad-op");
                        continue;
                    }
                };
                match rt.block_on(roundtrip(&dur_from_raw(raw), cap, &mut buffer)) {
                    Ok(y) => {
                        let back = dur_raw(y);
                        // "durations to within one part per billion plus one 2^-32 s unit"
                        let diff = (back as i128 - raw as i128).abs();
                        let bound = (raw as i128).abs() / 1_000_000_000 + 1;
                        if diff > bound {
                            // F-C38b: a negative sub-second duration comes back exactly 2 units low
                            let attrs = if raw < 0 && raw > -1_000_000_000 && back as i128 == raw as i128 - 2 { "excess=neg-subsecond-2units" } else { "excess=other" };
                            run.oracle_fail("duration_bound", attrs, &format!("duration {} read back as {} (|diff| {} > {})", raw, back, diff, bound));
                        }
                        key.push('d');
                        run.hit(if diff == 0 { "dur-exact" } else { "dur-within-bound" });
                        run.end_op(&back.to_string());
                    }
                    Err(e) => {
                        run.oracle_fail("value_read_back", &format!("op={}", i), &format!("a written value could not be read back with the reused buffer: {} (op {:?})", e, op));
                        run.end_op(&format!("err:{}", err_kind(&e)))
                    }
                }
            }
            ["u64", n] => {
                let x: u64 = match n.parse() {
                    Ok(x) => x,
                    Err(_) => {
                        run.end_op("bad-op");
                        continue;
                    }
                };
                match rt.block_on(roundtrip(&x, cap, &mut buffer)) {
                    Ok(y) => {
                        if y != x {
                            run.oracle_fail("integer_equal", "", &format!("u64 {} read back as {}", x, y));
                        }
                        key.push('u');
                        run.end_op(&y.to_string());
                    }
                    Err(e) => {
                        run.oracle_fail("value_read_back", &format!("op={}", i), &format!("a written value could not be read back with the reused buffer: {} (op {:?})", e, op));
                        run.end_op(&format!("err:{}", err_kind(&e)))
                    }
                }
            }
            _ => run.end_op("bad-op"),
        }
    }
    run.nontrivial(&key);
}

#[test]
fn entry() {
    let stream = std::env::var("VERIF_STREAM").unwrap_or_default();
    match stream.as_str() {
        "c38_framing" => common::drive(
            "c38_framing",
            "write_json of random JSON values (emitted bytes vs be64(len)++payload; read back) and of strings with payload sizes around 2^20; read_json on hand-built frames (exact, announcing more / less, trailing bytes, truncated anywhere, junk payload), oversize announcements (2^20+1, 2^32, 2^63, u64::MAX, byte-swapped small sizes) and synthetic frames with sizes 0..2^20+4096; observation = result kind, bytes consumed, buffer length; distinct by op-kind/result string",
            gen_framing_case,
            exec_framing_case,
        ),
        "c38_values" => common::drive(
            "c38_values",
            "single values write_json -> tokio duplex (capacity 1/7/8/9/64/4096) -> read_json: finite f64 (special values, random bit patterns), NtpDuration raw i64 (0, +-1, limits, 2^32 neighbours, random magnitudes), u64; distinct by kind string",
            gen_values_case,
            exec_values_case,
        ),
        other => panic!("unknown VERIF_STREAM {:?}", other),
    }
}
