//! verification harness module included into `ntpd/src/lib.rs` (guarded hook).
