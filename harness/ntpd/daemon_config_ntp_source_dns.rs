//! verification harness helper included into `ntpd/src/daemon/config/ntp_source.rs` (guarded hook).
//! Child of `crate::daemon::config::ntp_source`, so it sees the private `hardcoded_dns_resolve` field of
//! `NormalizedAddress` and the private list of the cfg(test) helper `HardcodedDnsResolve`.
//!
//! It lets the spawner harnesses (other hooks) script an arbitrary sequence of DNS answers, including
//! failures, through the project's own cfg(test) hard-coded DNS helper:
//!   * `NormalizedAddress::verif_scripted_dns()` builds an address whose answer list is shared with the
//!     harness (`Arc<Mutex<Vec<SocketAddr>>>`);
//!   * `NormalizedAddress::verif_set_answer(&script, answer)` stores `answer` so that the NEXT lookup
//!     returns exactly `answer` (the helper ROTATES its list on every lookup: it pops the last element
//!     and inserts it at the front, so the list is stored rotated left by one);
//!   * `addr.verif_dns_fail(Some(&script) | None)`: `None` removes the hard-coded list, so the lookup
//!     goes to the system resolver with a server name that contains a NUL byte, which fails at once and
//!     without any network traffic (`InvalidInput`) — a deterministic DNS *error*.
//!
//! The methods are inherent `pub(crate)` methods, therefore callable from the other hook modules although
//! this module itself is private to `ntp_source`.
#![allow(clippy::all, clippy::pedantic, dead_code)]

use super::super::*;
use std::net::SocketAddr;
use std::sync::{Arc, Mutex};

/// server name used by scripted addresses: never resolvable, fails before any network access
pub(crate) const VERIF_UNRESOLVABLE: &str = "verif\0unresolvable.invalid";

impl NormalizedAddress {
    pub(crate) fn verif_scripted_dns(port: u16) -> (NormalizedAddress, Arc<Mutex<Vec<SocketAddr>>>) {
        let helper = HardcodedDnsResolve::from(Vec::new());
        let script = helper.addresses.clone();
        (
            NormalizedAddress {
                server_name: VERIF_UNRESOLVABLE.to_string(),
                port,
                hardcoded_dns_resolve: Some(helper),
            },
            script,
        )
    }

    /// make the next lookup through `script` return exactly `answer` (compensates the rotation)
    pub(crate) fn verif_set_answer(script: &Arc<Mutex<Vec<SocketAddr>>>, answer: &[SocketAddr]) {
        let mut v = answer.to_vec();
        if !v.is_empty() {
            v.rotate_left(1);
        }
        *script.lock().unwrap() = v;
    }

    /// what the list holds right now (after a lookup: the answer that lookup returned)
    pub(crate) fn verif_peek(script: &Arc<Mutex<Vec<SocketAddr>>>) -> Vec<SocketAddr> {
        script.lock().unwrap().clone()
    }

    /// `Some(script)`: lookups answer from the script; `None`: lookups fail (resolver error)
    pub(crate) fn verif_dns_fail(&mut self, script: Option<&Arc<Mutex<Vec<SocketAddr>>>>) {
        self.hardcoded_dns_resolve = script.map(|s| HardcodedDnsResolve { addresses: s.clone() });
    }
}
