//! verification harness module included into `ntpd/src/daemon/observer.rs` (guarded hook).
