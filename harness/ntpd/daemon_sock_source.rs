//! verification harness module included into `ntpd/src/daemon/sock_source.rs` (guarded hook).
