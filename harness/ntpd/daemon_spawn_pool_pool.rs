//! verification harness module included into `ntpd/src/daemon/spawn/pool.rs` (guarded hook), property C35.
//! Child of `crate::daemon::spawn::pool`, so it sees `PoolSpawner`'s private fields.
//!
//! Stream `c35_pool`: the REAL `PoolSpawner` driven by scripted DNS answers (through the project's own
//! cfg(test) hard-coded DNS helper, see `daemon_config_ntp_source_dns.rs`) interleaved with removals in
//! any order.  Observed: the `SpawnEvent`s (id, address) of every `try_spawn` and `is_complete()`.
//!
//! Op lines (model input)                         observation
//!   cfg count=<n> ign=<ip,ip|->                  ok
//!   spawn dns=<ip.port,ip.port,..|-|fail>        spawned=<id@ip.port,..|-> complete=<0|1>
//!   remove id=<k> reason=<D|N|U>                 complete=<0|1>
//! (the generator writes `remove nth=<k>`; the executor resolves it to the id of the k-th active source
//! and logs the resolved form, so logged cases replay verbatim.)
//!
//! `ip` is an integer key; `ip_of` maps it to a real address: IPv4 hosts, the IPv4-mapped IPv6 form
//! (`::ffff:a.b.c.d`) of the SAME hosts, IPv6-only hosts, and the unspecified / loop-back corners in all
//! their forms (see `ip_of`).  The oracle is literal (`SocketAddr` / `IpAddr` equality, like the code).  Ids are the `ClockId`s
//! renumbered in order of first appearance (`ClockId::new()` is a global counter; the oracle checks
//! that it never repeats an id).
//!
//! Oracle (the property itself, on the event stream versus the removal events, no model involved):
//!   bounded     active sources (spawned, not yet removed) never exceed `count`
//!   distinct    no two active sources share a socket address
//!   no_ignored  no spawned address has an ignored ip
//!   fresh_id    no ClockId is handed out twice
#![allow(clippy::all, clippy::pedantic)]

#[path = "../common/mod.rs"]
mod common;

use super::super::*;
use crate::daemon::config::{NormalizedAddress, NtpAddress, PoolSourceConfig};
use crate::daemon::spawn::{SourceCreateParameters, SourceRemovalReason};
use common::{kv, Rng, Run};
use ntp_proto::ProtocolVersion;
use std::collections::HashMap;
use std::net::{IpAddr, Ipv4Addr, Ipv6Addr, SocketAddr};
use std::sync::OnceLock;

fn runtime() -> &'static tokio::runtime::Runtime {
    static RT: OnceLock<tokio::runtime::Runtime> = OnceLock::new();
    RT.get_or_init(|| {
        tokio::runtime::Builder::new_current_thread()
            .enable_all()
            .build()
            .expect("tokio runtime")
    })
}

/// ip keys (opaque to the model: different keys are different addresses, exactly as `SocketAddr`
/// equality sees them).  The key space puts BOTH textual forms of one IPv4 host next to each other:
///   h            (h < 1000)   IPv4 10.0.(h>>8).(h&255)
///   1000 + h                  the IPv4-mapped IPv6 form ::ffff:10.0.(h>>8).(h&255) of the same host
///   2000 + h                  an IPv6-only host fd00::h
///   3000 / 3001 / 3002        0.0.0.0 / ::ffff:0.0.0.0 / ::        (unspecified corners)
///   3003 / 3004 / 3005        127.0.0.1 / ::ffff:127.0.0.1 / ::1   (loopback corners)
/// The unmodified code compares addresses literally (`SocketAddr` / `IpAddr` equality), so `h` and
/// `1000 + h` are different addresses for it; any canonicalisation of one form into the other AFTER the
/// ignore / active filter shows up as a source for an ignored or already active address.
pub(super) fn ip_of(k: u64) -> IpAddr {
    let v4 = |h: u64| Ipv4Addr::new(10, 0, (h >> 8) as u8, h as u8);
    match k {
        3000 => IpAddr::V4(Ipv4Addr::UNSPECIFIED),
        3001 => IpAddr::V6(Ipv4Addr::UNSPECIFIED.to_ipv6_mapped()),
        3002 => IpAddr::V6(Ipv6Addr::UNSPECIFIED),
        3003 => IpAddr::V4(Ipv4Addr::LOCALHOST),
        3004 => IpAddr::V6(Ipv4Addr::LOCALHOST.to_ipv6_mapped()),
        3005 => IpAddr::V6(Ipv6Addr::LOCALHOST),
        k if k < 1000 => IpAddr::V4(v4(k)),
        k if k < 2000 => IpAddr::V6(v4(k - 1000).to_ipv6_mapped()),
        k => IpAddr::V6(Ipv6Addr::new(0xfd00, 0, 0, 0, 0, 0, 0, (k - 2000) as u16)),
    }
}

pub(super) fn key_of(ip: IpAddr) -> u64 {
    let v4key = |a: Ipv4Addr, base: u64, unspec: u64, lo: u64| {
        if a == Ipv4Addr::UNSPECIFIED {
            unspec
        } else if a == Ipv4Addr::LOCALHOST {
            lo
        } else {
            let o = a.octets();
            base + (((o[2] as u64) << 8) | o[3] as u64)
        }
    };
    match ip {
        IpAddr::V4(a) => v4key(a, 0, 3000, 3003),
        IpAddr::V6(a) => {
            if let Some(m) = a.to_ipv4_mapped() {
                v4key(m, 1000, 3001, 3004)
            } else if a == Ipv6Addr::UNSPECIFIED {
                3002
            } else if a == Ipv6Addr::LOCALHOST {
                3005
            } else {
                2000 + a.segments()[7] as u64
            }
        }
    }
}

/// the other textual form of the same IPv4 host, if the key has one
fn other_form(k: u64) -> Option<u64> {
    match k {
        3000 => Some(3001),
        3001 => Some(3000),
        3003 => Some(3004),
        3004 => Some(3003),
        k if k < 1000 => Some(k + 1000),
        k if k < 2000 => Some(k - 1000),
        _ => None,
    }
}

/// a key for host `h` (1-based) in a random form, now and then one of the corner addresses
fn gen_key(rng: &mut Rng, universe: u64) -> u64 {
    if rng.chance(1, 14) {
        return 3000 + rng.below(6);
    }
    let h = rng.below(universe) + 1;
    match rng.below(20) {
        0..=10 => h,
        11..=16 => 1000 + h,
        _ => 2000 + h,
    }
}

fn parse_addr(w: &str) -> SocketAddr {
    let (ip, port) = w.split_once('.').expect("ip.port");
    SocketAddr::new(ip_of(ip.parse().expect("ip key")), port.parse().expect("port"))
}

fn show_addr(a: &SocketAddr) -> String {
    format!("{}.{}", key_of(a.ip()), a.port())
}

fn parse_reason(r: &str) -> SourceRemovalReason {
    match r {
        "D" => SourceRemovalReason::Demobilized,
        "U" => SourceRemovalReason::Unreachable,
        _ => SourceRemovalReason::NetworkIssue,
    }
}

/// design-time witnesses of F-C35 (always run first) and a few fixed shapes
fn corpus(idx: u64) -> Option<Vec<String>> {
    let v: Vec<&str> = match idx {
        // DNS answer [A, A] with count = 2: two sources for A on the unrepaired code
        0 => vec!["cfg count=2 ign=-", "spawn dns=1.123,1.123"],
        // answer [C, A, B, C]: C, B, A are taken, the second C stays known; after the removal of A it is
        // popped WITHOUT a lookup (1 known >= 1 missing) although C is active
        1 => vec![
            "cfg count=3 ign=-",
            "spawn dns=3.123,1.123,2.123,3.123",
            "remove nth=1 reason=N",
            "spawn dns=4.123",
        ],
        // [A, B, C, C] with count 2 (the design note's answer)
        2 => vec!["cfg count=2 ign=-", "spawn dns=1.123,2.123,3.123,3.123", "remove nth=0 reason=U", "spawn dns=-"],
        // duplicates across two answers: the second answer repeats a still-known address
        3 => vec![
            "cfg count=3 ign=-",
            "spawn dns=1.123",
            "spawn dns=2.123,3.123,4.123,5.123",
            "remove nth=0 reason=N",
            "remove nth=0 reason=N",
            "spawn dns=3.123,3.123",
            "remove nth=0 reason=D",
            "spawn dns=fail",
            "spawn dns=-",
        ],
        // ignore list, same ip on another port, failure keeps known addresses unused
        4 => vec![
            "cfg count=2 ign=1,4",
            "spawn dns=1.123,2.123,4.123,2.124,1.124",
            "remove nth=1 reason=N",
            "spawn dns=fail",
            "spawn dns=1.123,4.123",
        ],
        // count = 0: never anything
        5 => vec!["cfg count=0 ign=-", "spawn dns=1.123", "remove id=0 reason=N", "spawn dns=2.123"],
        // both forms of one host: the IPv4-mapped form of an ignored IPv4 address (literally another
        // address for the code; a canonicalisation after the filter would spawn the ignored one)
        6 => vec!["cfg count=3 ign=1", "spawn dns=1001.123,2.123,3.123"],
        // the mapped form of an ACTIVE address arrives in a later answer
        7 => vec!["cfg count=2 ign=-", "spawn dns=1.123", "spawn dns=1001.123"],
        // both forms in one answer; the mapped form ignored, the plain one not; v6-only host
        8 => vec![
            "cfg count=4 ign=1002,2003",
            "spawn dns=1.123,1001.123,2.123,1002.123,2003.123,2004.123",
            "remove nth=0 reason=N",
            "spawn dns=1001.123,1.123",
        ],
        // unspecified / loopback corners in all their forms
        9 => vec![
            "cfg count=6 ign=3000,3004",
            "spawn dns=3000.123,3001.123,3002.123,3003.123,3004.123,3005.123",
            "remove nth=1 reason=U",
            "spawn dns=3001.123,3003.123,3005.123",
        ],
        _ => return None,
    };
    Some(v.into_iter().map(String::from).collect())
}

fn gen_answer(rng: &mut Rng, universe: u64) -> String {
    match rng.below(20) {
        0 => return "fail".to_string(),
        1 => return "-".to_string(),
        _ => {}
    }
    let n = match rng.below(10) {
        0 => 1,
        1..=5 => rng.usize(2, 4),
        6..=8 => rng.usize(3, 6),
        _ => rng.usize(5, 9),
    };
    let mut v: Vec<String> = vec![];
    for _ in 0..n {
        // repeat an earlier element of this very answer now and then (duplicates inside one answer)
        if !v.is_empty() && rng.chance(1, 4) {
            let w = rng.pick(&v).clone();
            v.push(w);
            continue;
        }
        // now and then the OTHER form of a host that is already in this answer
        let ip = match v.last().and_then(|w: &String| w.split('.').next()?.parse::<u64>().ok()).and_then(other_form) {
            Some(o) if rng.chance(1, 5) => o,
            _ => gen_key(rng, universe),
        };
        let port = if rng.chance(1, 12) { 124 } else { 123 };
        v.push(format!("{}.{}", ip, port));
    }
    v.join(",")
}

fn gen_pool_case(rng: &mut Rng, idx: u64, _run: &Run) -> Vec<String> {
    if let Some(c) = corpus(idx) {
        return c;
    }
    let count = match rng.below(12) {
        0 => 0,
        1 => 1,
        2..=5 => 2,
        6..=8 => 3,
        9 => 4,
        _ => rng.usize(4, 6),
    };
    // small universes force overlaps between answers, current sources and the ignore list
    let universe = rng.usize(2, 9) as u64;
    let mut ign: Vec<String> = vec![];
    if rng.chance(1, 2) {
        for _ in 0..rng.usize(1, 3) {
            ign.push(gen_key(rng, universe).to_string());
        }
    }
    let mut ops = vec![format!("cfg count={} ign={}", count, if ign.is_empty() { "-".to_string() } else { ign.join(",") })];
    let n = rng.usize(2, 24);
    let p_remove = 25 + 10 * rng.below(4);
    for _ in 0..n {
        if rng.below(100) < p_remove {
            let reason = *rng.pick(&["D", "N", "U"]);
            if rng.chance(1, 10) {
                // any id: unknown, already removed, or active
                ops.push(format!("remove id={} reason={}", rng.below(12), reason));
            } else {
                ops.push(format!("remove nth={} reason={}", rng.below(6), reason));
            }
        } else {
            ops.push(format!("spawn dns={}", gen_answer(rng, universe)));
        }
    }
    ops.push(format!("spawn dns={}", gen_answer(rng, universe)));
    ops
}

struct Active {
    id: usize,
    addr: SocketAddr,
}

fn exec_pool_case(ops: &[String], run: &mut Run) {
    let rt = runtime();
    let (addr, script) = NormalizedAddress::verif_scripted_dns(123);
    let mut count = 0usize;
    let mut ignore: Vec<IpAddr> = vec![];
    let mut pool: Option<PoolSpawner> = None;
    let (action_tx, mut action_rx) = tokio::sync::mpsc::channel::<SpawnEvent>(256);
    let mut ids: HashMap<ClockId, usize> = HashMap::new();
    let mut active: Vec<Active> = vec![];
    let mut key = String::new();
    let mut removed_active = false;
    let mut respawned = false;
    let mut total_spawned = 0usize;

    for op in ops {
        run.begin_op(op);
        let w: Vec<&str> = op.split_whitespace().collect();
        match w.as_slice() {
            ["cfg", rest @ ..] => {
                count = kv(rest, "count").and_then(|c| c.parse().ok()).expect("count");
                ignore = match kv(rest, "ign") {
                    Some("-") | None => vec![],
                    Some(l) => l.split(',').map(|k| ip_of(k.parse().expect("ign key"))).collect(),
                };
                pool = Some(PoolSpawner::new(
                    PoolSourceConfig {
                        addr: NtpAddress(addr.clone()),
                        count,
                        ignore: ignore.clone(),
                        ntp_version: ProtocolVersion::V4,
                    },
                    SourceConfig::default(),
                ));
                active.clear();
                run.end_op("ok");
            }
            ["spawn", rest @ ..] => {
                let pool = pool.as_mut().expect("cfg first");
                let dns = kv(rest, "dns").expect("dns");
                let mut answer: Vec<SocketAddr> = vec![];
                if dns == "fail" {
                    pool.config.addr.0.verif_dns_fail(None);
                    run.hit("dns-fail");
                } else {
                    if dns != "-" {
                        answer = dns.split(',').map(parse_addr).collect();
                    }
                    pool.config.addr.0.verif_dns_fail(Some(&script));
                    NormalizedAddress::verif_set_answer(&script, &answer);
                    if answer.is_empty() {
                        run.hit("dns-empty");
                    }
                    let mut sorted = answer.clone();
                    sorted.sort();
                    sorted.dedup();
                    if sorted.len() < answer.len() {
                        run.hit("dns-answer-with-duplicates");
                    }
                    if answer.iter().any(|a| ignore.contains(&a.ip())) {
                        run.hit("dns-answer-with-ignored");
                    }
                    if answer.iter().any(|a| active.iter().any(|s| s.addr == *a)) {
                        run.hit("dns-answer-overlaps-active");
                    }
                    // the two-forms situations (IPv4 / IPv4-mapped IPv6 of one host)
                    let other = |a: &SocketAddr| other_form(key_of(a.ip())).map(|k| SocketAddr::new(ip_of(k), a.port()));
                    if answer.iter().any(|a| other(a).map_or(false, |o| answer.contains(&o))) {
                        run.hit("dns-answer-with-both-forms-of-a-host");
                    }
                    if answer.iter().any(|a| other(a).map_or(false, |o| ignore.contains(&o.ip()) && !ignore.contains(&a.ip()))) {
                        run.hit("dns-answer-with-other-form-of-ignored");
                    }
                    if answer.iter().any(|a| other(a).map_or(false, |o| active.iter().any(|s| s.addr == o))) {
                        run.hit("dns-answer-with-other-form-of-active");
                    }
                    if answer.iter().any(|a| key_of(a.ip()) >= 3000) {
                        run.hit("dns-answer-with-unspecified-or-loopback");
                    }
                }
                let was_complete = pool.is_complete();
                rt.block_on(pool.try_spawn(&action_tx)).expect("PoolSpawnError is uninhabited");
                let mut spawned: Vec<String> = vec![];
                while let Ok(ev) = action_rx.try_recv() {
                    if ev.id != pool.get_id() {
                        run.oracle_fail("spawner_id", "", "spawn event carries a foreign spawner id");
                    }
                    let SpawnAction::Create(SourceCreateParameters::Ntp(params)) = ev.action else {
                        run.oracle_fail("event_kind", "", "pool spawner emitted a non-NTP create action");
                        continue;
                    };
                    let next = ids.len();
                    if ids.insert(params.id, next).is_some() {
                        run.oracle_fail("fresh_id", "", &format!("ClockId {:?} handed out twice", params.id));
                    }
                    // ---- the property, evaluated on the event stream ----
                    let in_answer_twice = answer.iter().filter(|a| **a == params.addr).count() > 1;
                    if let Some(other) = active.iter().find(|s| s.addr == params.addr) {
                        run.oracle_fail(
                            "distinct",
                            &format!("dup_in_answer={}", in_answer_twice as u8),
                            &format!(
                                "source {} spawned for {} while source {} for the same address is active",
                                next,
                                show_addr(&params.addr),
                                other.id
                            ),
                        );
                    }
                    if ignore.contains(&params.addr.ip()) {
                        run.oracle_fail("no_ignored", "", &format!("source spawned for ignored address {}", show_addr(&params.addr)));
                    }
                    active.push(Active { id: next, addr: params.addr });
                    if active.len() > count {
                        run.oracle_fail("bounded", "", &format!("{} active sources with count = {}", active.len(), count));
                    }
                    spawned.push(format!("{}@{}", next, show_addr(&params.addr)));
                }
                total_spawned += spawned.len();
                if removed_active && !spawned.is_empty() {
                    respawned = true;
                }
                run.hit(match (was_complete, spawned.len()) {
                    (true, _) => "spawn-already-complete",
                    (false, 0) => "spawn-none",
                    (false, 1) => "spawn-one",
                    (false, _) => "spawn-many",
                });
                if pool.is_complete() != (active.len() >= count) {
                    run.oracle_fail("complete_iff_full", "", &format!("is_complete = {} with {} of {} active", pool.is_complete(), active.len(), count));
                }
                key.push_str(&format!("s{}", spawned.len()));
                let line = format!(
                    "spawned={} complete={}",
                    if spawned.is_empty() { "-".to_string() } else { spawned.join(",") },
                    pool.is_complete() as u8
                );
                run.end_op(&line);
            }
            ["remove", rest @ ..] => {
                let pool = pool.as_mut().expect("cfg first");
                let reason = kv(rest, "reason").unwrap_or("N");
                let (id, resolved_op) = if let Some(nth) = kv(rest, "nth") {
                    let nth: usize = nth.parse().expect("nth");
                    // k-th active source; with none active: an id that was never handed out
                    let id = if active.is_empty() { ids.len() + nth } else { active[nth % active.len()].id };
                    (id, format!("remove id={} reason={}", id, reason))
                } else {
                    (kv(rest, "id").and_then(|i| i.parse().ok()).expect("id"), op.clone())
                };
                let clock_id = ids.iter().find(|(_, v)| **v == id).map(|(k, _)| *k);
                if let Some(pos) = active.iter().position(|s| s.id == id) {
                    active.remove(pos);
                    removed_active = true;
                    run.hit("remove-active");
                    key.push('r');
                } else {
                    run.hit("remove-inactive-or-unknown");
                    key.push('u');
                }
                // an id the pool never handed out: a fresh ClockId is exactly that
                let clock_id = clock_id.unwrap_or_else(ClockId::new);
                rt.block_on(pool.handle_source_removed(SourceRemovedEvent { id: clock_id, reason: parse_reason(reason) }))
                    .expect("PoolSpawnError is uninhabited");
                if pool.is_complete() != (active.len() >= count) {
                    run.oracle_fail("complete_iff_full", "", &format!("is_complete = {} with {} of {} active", pool.is_complete(), active.len(), count));
                }
                run.end_op_as(&resolved_op, &format!("complete={}", pool.is_complete() as u8));
            }
            _ => run.end_op("bad-op"),
        }
    }
    if respawned && total_spawned >= 2 {
        run.nontrivial(&key);
    }
}

#[test]
fn entry() {
    let stream = std::env::var("VERIF_STREAM").unwrap_or_default();
    match stream.as_str() {
        "c35_pool" => common::drive(
            "c35_pool",
            "real PoolSpawner, count 0-6, ignore lists, 3-25 ops; addresses are IPv4 hosts, the IPv4-mapped IPv6 form of the same hosts, IPv6-only hosts and the unspecified/loopback corners (both forms of one host regularly meet in answers, ignore lists and active sources); try_spawn with scripted DNS answers (duplicates inside an answer, overlaps with active/known/ignored addresses, empty answers, resolver errors) interleaved with removals of the k-th active / arbitrary ids for every reason; design-time witnesses first; non-trivial = a source was spawned after an active one was removed; distinct by spawn-count/removal signature",
            gen_pool_case,
            exec_pool_case,
        ),
        other => panic!("unknown VERIF_STREAM {:?}", other),
    }
}
