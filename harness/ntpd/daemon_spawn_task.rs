//! verification harness module included into `ntpd/src/daemon/spawn/mod.rs` (guarded hook), property C36.
//!
//! Stream `c36_task`: the REAL `spawner_task` on a hand-built current-thread tokio runtime with the clock
//! paused (`start_paused`), driven by scripted system events at scripted times, with
//!   * a scripted mock `Spawner` (per `try_spawn` call: duration and outcome incomplete/complete/Err;
//!     removals clear completeness, `Demobilized` optionally not), or
//!   * the real `StandardSpawner` behind the project's cfg(test) hard-coded DNS helper (loop-back
//!     addresses), each `try_spawn` preceded by a scripted delay.
//! A logging wrapper records the instants (exact under the paused clock) of every `try_spawn` call and of
//! every handler call.  All scripted times are whole milliseconds (tokio's timer granularity).
//!
//! Op lines (model input; times in ms)                                  observation
//!   cfg spawner=mock complete=<0|1> keepd=<0|1> script=<d:o,..|->        ok
//!   cfg spawner=std dns=<ip.port,..|-> delays=<d,..|->                   ok
//!   ev t=<ms> kind=<reg|idle|rem> [reason=<D|N|U>]                       ok
//!   run close=<ms>                                                       <trace>
//! trace (times in ns): `a<start>-<end>:<0|1|E>` try_spawn call and is_complete() after it (E = Err),
//!   `g<t>` handle_registered, `r<t><D|N|U>` handle_source_removed, `end<t>:<ok|err>` task end,
//!   and for the standard spawner ` spawned=<ip.port,..>` (addresses of the SpawnEvents, in order).
//!
//! Oracle (the property itself, evaluated on the recorded instants; no model involved):
//!   paced          consecutive try_spawn calls start at least 1 s apart
//!   only_if_incomplete  try_spawn is only called when is_complete() is false
//!   keeps_trying   while the spawner is incomplete the next call starts no later than
//!                  max(time it became incomplete, end of the previous call + 1 s), unless the task ended by then
//!   no_respawn_after_demobilize (standard spawner / keepd mock): after a successful spawn there is no
//!                  further call until a removal with a reason other than Demobilized was handled
//!   reresolve      (standard spawner) first spawn after an Unreachable removal does a DNS lookup;
//!                  after a NetworkIssue removal it does not and re-uses the address
#![allow(clippy::all, clippy::pedantic)]

#[path = "../common/mod.rs"]
mod common;

use super::super::*;
use crate::daemon::config::{NormalizedAddress, NtpAddress, StandardSource};
use crate::daemon::spawn::standard::StandardSpawner;
use common::{kv, Rng, Run};
use std::collections::VecDeque;
use std::net::{IpAddr, Ipv4Addr, SocketAddr};
use std::sync::{Arc, Mutex};
use std::time::Duration;

const P_NS: u64 = 1_000_000_000;

#[derive(Clone, Debug)]
enum Entry {
    Attempt { start: u64, end: u64, complete_after: Option<bool>, looked_up: bool },
    Registered { t: u64, complete_after: bool },
    Removed { t: u64, reason: char, complete_after: bool },
}

type Log = Arc<Mutex<Vec<Entry>>>;

/// logging wrapper: records instants, adds a scripted delay in front of `try_spawn`
struct Timed<S> {
    inner: S,
    delays: VecDeque<u64>,
    log: Log,
    t0: tokio::time::Instant,
    /// snapshot of the DNS helper's list (changes exactly when a lookup rotates it)
    probe: Box<dyn Fn() -> Vec<SocketAddr> + Send>,
}

impl<S> Timed<S> {
    fn now(&self) -> u64 {
        self.t0.elapsed().as_nanos() as u64
    }
}

impl<S: Spawner + Send> Spawner for Timed<S> {
    type Error = S::Error;

    async fn try_spawn(&mut self, action_tx: &mpsc::Sender<SpawnEvent>) -> Result<(), S::Error> {
        let start = self.now();
        if let Some(d) = self.delays.pop_front() {
            if d > 0 {
                tokio::time::sleep(Duration::from_millis(d)).await;
            }
        }
        let before = (self.probe)();
        let res = self.inner.try_spawn(action_tx).await;
        let looked_up = (self.probe)() != before;
        let end = self.now();
        let complete_after = if res.is_ok() { Some(self.inner.is_complete()) } else { None };
        self.log.lock().unwrap().push(Entry::Attempt { start, end, complete_after, looked_up });
        res
    }

    fn is_complete(&self) -> bool {
        self.inner.is_complete()
    }

    async fn handle_source_removed(&mut self, event: SourceRemovedEvent) -> Result<(), S::Error> {
        let reason = match event.reason {
            SourceRemovalReason::Demobilized => 'D',
            SourceRemovalReason::NetworkIssue => 'N',
            SourceRemovalReason::Unreachable => 'U',
        };
        let res = self.inner.handle_source_removed(event).await;
        let t = self.now();
        self.log.lock().unwrap().push(Entry::Removed { t, reason, complete_after: self.inner.is_complete() });
        res
    }

    async fn handle_registered(&mut self, event: SourceCreateParameters) -> Result<(), S::Error> {
        let res = self.inner.handle_registered(event).await;
        let t = self.now();
        self.log.lock().unwrap().push(Entry::Registered { t, complete_after: self.inner.is_complete() });
        res
    }

    fn get_id(&self) -> SpawnerId {
        self.inner.get_id()
    }
    fn get_addr_description(&self) -> String {
        self.inner.get_addr_description()
    }
    fn get_description(&self) -> &'static str {
        self.inner.get_description()
    }
}

#[derive(Debug)]
struct MockErr;
impl std::fmt::Display for MockErr {
    fn fmt(&self, f: &mut std::fmt::Formatter<'_>) -> std::fmt::Result {
        write!(f, "scripted error")
    }
}
impl std::error::Error for MockErr {}

struct Mock {
    complete: bool,
    script: VecDeque<(u64, u8)>,
    keep_on_demobilize: bool,
    id: SpawnerId,
}

impl Spawner for Mock {
    type Error = MockErr;

    async fn try_spawn(&mut self, _action_tx: &mpsc::Sender<SpawnEvent>) -> Result<(), MockErr> {
        if let Some((d, o)) = self.script.pop_front() {
            if d > 0 {
                tokio::time::sleep(Duration::from_millis(d)).await;
            }
            if o == 2 {
                return Err(MockErr);
            }
            self.complete = o == 1;
        }
        Ok(())
    }
    fn is_complete(&self) -> bool {
        self.complete
    }
    async fn handle_source_removed(&mut self, event: SourceRemovedEvent) -> Result<(), MockErr> {
        if !(event.reason == SourceRemovalReason::Demobilized && self.keep_on_demobilize) {
            self.complete = false;
        }
        Ok(())
    }
    fn get_id(&self) -> SpawnerId {
        self.id
    }
    fn get_addr_description(&self) -> String {
        "mock".into()
    }
    fn get_description(&self) -> &'static str {
        "mock"
    }
}

fn loopback(k: u64) -> IpAddr {
    IpAddr::V4(Ipv4Addr::new(127, 0, 1, k as u8))
}

fn parse_addr(w: &str) -> SocketAddr {
    let (ip, port) = w.split_once('.').expect("ip.port");
    SocketAddr::new(loopback(ip.parse().expect("ip key")), port.parse().expect("port"))
}

fn show_addr(a: &SocketAddr) -> String {
    match a.ip() {
        IpAddr::V4(v4) => format!("{}.{}", v4.octets()[3], a.port()),
        IpAddr::V6(_) => format!("?.{}", a.port()),
    }
}

#[derive(Clone)]
enum EvKind {
    Reg,
    Idle,
    Rem(char),
}

enum SpawnerCfg {
    Mock { complete: bool, keepd: bool, script: Vec<(u64, u8)> },
    Std { dns: Vec<SocketAddr>, delays: Vec<u64> },
}

fn list<'a>(s: Option<&'a str>) -> Vec<&'a str> {
    match s {
        None | Some("-") => vec![],
        Some(l) => l.split(',').collect(),
    }
}

struct Outcome {
    log: Vec<Entry>,
    end: u64,
    ok: bool,
    spawned: Vec<SocketAddr>,
}

fn system_event(kind: &EvKind) -> SystemEvent {
    match kind {
        EvKind::Reg => SystemEvent::SourceRegistered(SourceCreateParameters::Sock(SockSourceCreateParameters {
            id: ClockId::new(),
            path: PathBuf::from("/verif"),
            config: SourceConfig::default(),
            precision: 1.0,
            accuracy: 0.0,
        })),
        EvKind::Idle => SystemEvent::Idle,
        EvKind::Rem(r) => SystemEvent::source_removed(
            ClockId::new(),
            match r {
                'D' => SourceRemovalReason::Demobilized,
                'U' => SourceRemovalReason::Unreachable,
                _ => SourceRemovalReason::NetworkIssue,
            },
        ),
    }
}

/// run the real `spawner_task` under a paused clock
fn execute(cfg: &SpawnerCfg, events: &[(u64, EvKind)], close_ms: u64) -> Outcome {
    let rt = tokio::runtime::Builder::new_current_thread()
        .enable_all()
        .start_paused(true)
        .build()
        .expect("tokio runtime");
    let log: Log = Arc::new(Mutex::new(vec![]));
    rt.block_on(async {
        let t0 = tokio::time::Instant::now();
        let (action_tx, mut action_rx) = mpsc::channel::<SpawnEvent>(4096);
        let (notify_tx, notify_rx) = mpsc::channel::<SystemEvent>(events.len() + 1);
        let handle = match cfg {
            SpawnerCfg::Mock { complete, keepd, script } => {
                let sp = Timed {
                    inner: Mock {
                        complete: *complete,
                        script: script.iter().copied().collect(),
                        keep_on_demobilize: *keepd,
                        id: SpawnerId::new(),
                    },
                    delays: VecDeque::new(),
                    log: log.clone(),
                    t0,
                    probe: Box::new(Vec::new),
                };
                tokio::spawn(async move { spawner_task(sp, action_tx, notify_rx).await.is_ok() })
            }
            SpawnerCfg::Std { dns, delays } => {
                let (mut addr, script) = NormalizedAddress::verif_scripted_dns(123);
                addr.verif_dns_fail(Some(&script));
                // the helper's list as it is: every lookup rotates it (no compensation here — the model
                // reproduces the rotation)
                *script.lock().unwrap() = dns.clone();
                let probe_script = script.clone();
                let sp = Timed {
                    inner: StandardSpawner::new(
                        StandardSource { address: NtpAddress(addr), ntp_version: ProtocolVersion::V4 },
                        SourceConfig::default(),
                    ),
                    delays: delays.iter().copied().collect(),
                    log: log.clone(),
                    t0,
                    probe: Box::new(move || NormalizedAddress::verif_peek(&probe_script)),
                };
                tokio::spawn(async move { spawner_task(sp, action_tx, notify_rx).await.is_ok() })
            }
        };
        for (t, kind) in events {
            tokio::time::sleep_until(t0 + Duration::from_millis(*t)).await;
            // the task may already have ended with an error: the send then fails, which is fine
            let _ = notify_tx.send(system_event(kind)).await;
        }
        tokio::time::sleep_until(t0 + Duration::from_millis(close_ms)).await;
        drop(notify_tx);
        let ok = handle.await.expect("spawner task panicked");
        let mut spawned = vec![];
        while let Ok(ev) = action_rx.try_recv() {
            if let SpawnAction::Create(SourceCreateParameters::Ntp(p)) = ev.action {
                spawned.push(p.addr);
            }
        }
        // the end instant of the task: the last log entry or the close time, whichever is later, for
        // `ok`; for an error it is the end of the failing call
        let l = log.lock().unwrap().clone();
        let last_logged = l
            .iter()
            .map(|e| match e {
                Entry::Attempt { end, .. } => *end,
                Entry::Registered { t, .. } | Entry::Removed { t, .. } => *t,
            })
            .max()
            .unwrap_or(0);
        let end = if ok { last_logged.max(close_ms * 1_000_000) } else { last_logged };
        Outcome { log: l, end, ok, spawned }
    })
}

fn render(o: &Outcome, with_spawned: bool) -> String {
    let mut parts: Vec<String> = vec![];
    for e in &o.log {
        parts.push(match e {
            Entry::Attempt { start, end, complete_after, .. } => format!(
                "a{}-{}:{}",
                start,
                end,
                match complete_after {
                    Some(true) => "1",
                    Some(false) => "0",
                    None => "E",
                }
            ),
            Entry::Registered { t, .. } => format!("g{}", t),
            Entry::Removed { t, reason, .. } => format!("r{}{}", t, reason),
        });
    }
    parts.push(format!("end{}:{}", o.end, if o.ok { "ok" } else { "err" }));
    if with_spawned {
        let s: Vec<String> = o.spawned.iter().map(show_addr).collect();
        parts.push(format!("spawned={}", if s.is_empty() { "-".to_string() } else { s.join(",") }));
    }
    parts.join(" ")
}

/// the property, evaluated on the recorded instants
fn oracle(run: &mut Run, cfg: &SpawnerCfg, initially_complete: bool, o: &Outcome) {
    let demobilize_keeps = match cfg {
        SpawnerCfg::Mock { keepd, .. } => *keepd,
        SpawnerCfg::Std { .. } => true,
    };
    let is_std = matches!(cfg, SpawnerCfg::Std { .. });
    // a lookup shows as a rotation of the helper's list only if no rotation maps the list to itself
    let lookup_visible = match cfg {
        SpawnerCfg::Std { dns, .. } => {
            let mut d = dns.clone();
            d.sort();
            d.dedup();
            dns.len() >= 2 && d.len() == dns.len()
        }
        _ => false,
    };
    let mut prev_start: Option<u64> = None;
    let mut prev_end: Option<u64> = None;
    let mut inc_since: Option<u64> = if initially_complete { None } else { Some(0) };
    // standard spawner: spawned and not removed for a reason other than Demobilized
    let mut holds_source = false;
    // standard spawner: what the last relevant removal asks of the next spawn
    let mut pending: Option<char> = None;
    let mut spawned = o.spawned.iter();
    let mut last_addr: Option<SocketAddr> = None;
    let due = |inc: u64, prev_end: Option<u64>| prev_end.map_or(inc, |e| inc.max(e + P_NS));
    for e in &o.log {
        match e {
            Entry::Attempt { start, end, complete_after, looked_up } => {
                if let Some(ps) = prev_start {
                    if *start < ps + P_NS {
                        run.oracle_fail("paced", "", &format!("try_spawn calls start at {} and {} ns: less than one second apart", ps, start));
                    }
                }
                match inc_since {
                    None => run.oracle_fail("only_if_incomplete", "", &format!("try_spawn called at {} ns while the spawner is complete", start)),
                    Some(t) => {
                        let d = due(t, prev_end);
                        if *start > d {
                            run.oracle_fail("keeps_trying", "", &format!("incomplete since {} ns, previous call ended {:?}: next call was due at {} ns but started at {} ns", t, prev_end, d, start));
                        }
                    }
                }
                if demobilize_keeps && holds_source {
                    run.oracle_fail("no_respawn_after_demobilize", "", &format!("try_spawn at {} ns although the source was spawned and only demobilised since", start));
                }
                if *complete_after == Some(true) {
                    holds_source = true;
                    if is_std {
                        let addr = spawned.next().copied();
                        if addr.is_none() {
                            run.oracle_fail("spawn_event", "", "standard spawner became complete without sending a SpawnEvent");
                        }
                        match pending {
                            Some('U') if lookup_visible && !*looked_up => run.oracle_fail("reresolve", "after=U", &format!("spawn at {} ns after an Unreachable removal did not look the name up again", start)),
                            Some('N') if last_addr.is_some() && ((lookup_visible && *looked_up) || addr != last_addr) => run.oracle_fail("reresolve", "after=N", &format!("spawn at {} ns after a NetworkIssue removal looked the name up or changed the address", start)),
                            _ => {}
                        }
                        pending = None;
                        last_addr = addr;
                    }
                }
                prev_start = Some(*start);
                prev_end = Some(*end);
                inc_since = match complete_after {
                    Some(true) => None,
                    _ => Some(*end),
                };
            }
            Entry::Registered { t, complete_after } | Entry::Removed { t, complete_after, .. } => {
                if let Entry::Removed { reason, .. } = e {
                    if *reason != 'D' {
                        holds_source = false;
                    }
                    // Unreachable sticks (the resolution is dropped) until the next spawn
                    if *reason == 'U' || (*reason == 'N' && pending != Some('U')) {
                        pending = Some(*reason);
                    }
                }
                inc_since = match (*complete_after, inc_since) {
                    (true, _) => None,
                    (false, Some(s)) => Some(s),
                    (false, None) => Some(*t),
                };
            }
        }
    }
    if let (true, Some(t)) = (o.ok, inc_since) {
        let d = due(t, prev_end);
        if o.end > d {
            run.oracle_fail("keeps_trying", "", &format!("task ended at {} ns, but an attempt was due at {} ns (incomplete since {} ns)", o.end, d, t));
        }
    }
}

fn corpus(idx: u64) -> Option<Vec<String>> {
    let v: Vec<&str> = match idx {
        // an always-incomplete instant spawner: one attempt per second
        0 => vec!["cfg spawner=mock complete=0 keepd=0 script=0:0,0:0,0:0,0:0,0:0,0:0", "run close=4500"],
        // completes at once; removal at 300 ms → next attempt exactly at 1000 ms (ticket pacing)
        1 => vec!["cfg spawner=mock complete=0 keepd=0 script=0:1,0:1", "ev t=300 kind=rem reason=N", "run close=2500"],
        // ticket held while complete: removal at 5 s → immediate attempt
        2 => vec!["cfg spawner=mock complete=0 keepd=0 script=0:1,250:1", "ev t=5000 kind=rem reason=U", "run close=7000"],
        // events exactly on the deadline, slow try_spawn, events queued during it
        3 => vec![
            "cfg spawner=mock complete=0 keepd=1 script=1500:0,0:1,0:0",
            "ev t=100 kind=rem reason=N",
            "ev t=2500 kind=reg",
            "ev t=2500 kind=rem reason=D",
            "ev t=3000 kind=rem reason=N",
            "run close=4500",
        ],
        // standard spawner: demobilise → nothing; network issue → same address; unreachable → re-resolve
        4 => vec![
            "cfg spawner=std dns=1.123,2.123,3.123 delays=0,250",
            "ev t=500 kind=rem reason=D",
            "ev t=2500 kind=rem reason=N",
            "ev t=5000 kind=rem reason=U",
            "ev t=9000 kind=rem reason=U",
            "run close=12000",
        ],
        // error return ends the task
        5 => vec!["cfg spawner=mock complete=0 keepd=0 script=0:0,250:2,0:0", "run close=5000"],
        // standard spawner that cannot resolve: keeps trying every second
        6 => vec!["cfg spawner=std dns=- delays=-", "run close=3500"],
        _ => return None,
    };
    Some(v.into_iter().map(String::from).collect())
}

fn gen_task_case(rng: &mut Rng, idx: u64, _run: &Run) -> Vec<String> {
    if let Some(c) = corpus(idx) {
        return c;
    }
    let durations: [u64; 10] = [0, 0, 0, 0, 1, 250, 999, 1000, 1001, 2500];
    let mut ops = vec![];
    let std = rng.chance(1, 3);
    if std {
        let n = rng.usize(0, 4);
        let dns: Vec<String> = (0..n).map(|_| format!("{}.123", rng.below(5) + 1)).collect();
        let delays: Vec<String> = (0..rng.usize(0, 5)).map(|_| rng.pick(&durations).to_string()).collect();
        ops.push(format!(
            "cfg spawner=std dns={} delays={}",
            if dns.is_empty() { "-".to_string() } else { dns.join(",") },
            if delays.is_empty() { "-".to_string() } else { delays.join(",") }
        ));
    } else {
        let p_complete = *rng.pick(&[0u64, 30, 50, 80]);
        let script: Vec<String> = (0..rng.usize(0, 12))
            .map(|_| {
                let o = if rng.chance(1, 30) {
                    2
                } else if rng.below(100) < p_complete {
                    1
                } else {
                    0
                };
                format!("{}:{}", rng.pick(&durations), o)
            })
            .collect();
        ops.push(format!(
            "cfg spawner=mock complete={} keepd={} script={}",
            rng.chance(1, 8) as u8,
            rng.chance(1, 2) as u8,
            if script.is_empty() { "-".to_string() } else { script.join(",") }
        ));
    }
    let gaps: [u64; 12] = [0, 0, 1, 10, 250, 500, 999, 1000, 1001, 1500, 2000, 3000];
    let mut t: u64 = *rng.pick(&[0u64, 0, 1, 250, 1000, 1500]);
    let n = rng.usize(0, 10);
    for _ in 0..n {
        let kind = match rng.below(10) {
            0 => "reg".to_string(),
            1 => "idle".to_string(),
            _ => format!("rem reason={}", rng.pick(&["D", "N", "N", "U"])),
        };
        // now and then an item "older" than its predecessor (it is simply buffered)
        let shown = if rng.chance(1, 20) { t.saturating_sub(*rng.pick(&gaps)) } else { t };
        ops.push(format!("ev t={} kind={}", shown, kind));
        t += *rng.pick(&gaps);
    }
    let close = t + *rng.pick(&[0u64, 1, 500, 999, 1000, 1001, 2000, 3500]);
    ops.push(format!("run close={}", close));
    ops
}

fn exec_task_case(ops: &[String], run: &mut Run) {
    let mut cfg: Option<SpawnerCfg> = None;
    let mut events: Vec<(u64, EvKind)> = vec![];
    for op in ops {
        run.begin_op(op);
        let w: Vec<&str> = op.split_whitespace().collect();
        match w.as_slice() {
            ["cfg", rest @ ..] => {
                events.clear();
                cfg = Some(match kv(rest, "spawner") {
                    Some("std") => SpawnerCfg::Std {
                        dns: list(kv(rest, "dns")).into_iter().map(parse_addr).collect(),
                        delays: list(kv(rest, "delays")).into_iter().map(|d| d.parse().expect("delay")).collect(),
                    },
                    _ => SpawnerCfg::Mock {
                        complete: kv(rest, "complete") == Some("1"),
                        keepd: kv(rest, "keepd") == Some("1"),
                        script: list(kv(rest, "script"))
                            .into_iter()
                            .map(|x| {
                                let (d, o) = x.split_once(':').expect("d:o");
                                (d.parse().expect("d"), o.parse().expect("o"))
                            })
                            .collect(),
                    },
                });
                run.end_op("ok");
            }
            ["ev", rest @ ..] => {
                let t: u64 = kv(rest, "t").and_then(|t| t.parse().ok()).expect("t");
                let kind = match kv(rest, "kind") {
                    Some("reg") => EvKind::Reg,
                    Some("idle") => EvKind::Idle,
                    _ => EvKind::Rem(kv(rest, "reason").and_then(|r| r.chars().next()).unwrap_or('N')),
                };
                events.push((t, kind));
                run.end_op("ok");
            }
            ["run", rest @ ..] => {
                let close: u64 = kv(rest, "close").and_then(|t| t.parse().ok()).expect("close");
                let cfg = cfg.as_ref().expect("cfg first");
                let o = execute(cfg, &events, close);
                let initially_complete = match cfg {
                    SpawnerCfg::Mock { complete, .. } => *complete,
                    SpawnerCfg::Std { .. } => false,
                };
                oracle(run, cfg, initially_complete, &o);
                let is_std = matches!(cfg, SpawnerCfg::Std { .. });
                // branch statistics and the non-triviality signature
                let attempts = o.log.iter().filter(|e| matches!(e, Entry::Attempt { .. })).count();
                let mut key = String::new();
                let mut prev_end: Option<u64> = None;
                for e in &o.log {
                    match e {
                        Entry::Attempt { start, end, complete_after, .. } => {
                            let how = match prev_end {
                                None => "first",
                                Some(pe) if *start == pe + P_NS => "on-deadline",
                                Some(_) => "on-event-with-ticket",
                            };
                            run.hit(&format!("attempt-{}", how));
                            if end > start {
                                run.hit("attempt-slow");
                            }
                            key.push_str(match (how, complete_after) {
                                ("first", _) => "F",
                                ("on-deadline", Some(true)) => "D",
                                ("on-deadline", _) => "d",
                                (_, Some(true)) => "T",
                                _ => "t",
                            });
                            prev_end = Some(*end);
                        }
                        Entry::Registered { .. } => key.push('g'),
                        Entry::Removed { reason, .. } => {
                            run.hit(&format!("removed-{}", reason));
                            key.push(reason.to_ascii_lowercase());
                        }
                    }
                }
                run.hit(if o.ok { "end-closed" } else { "end-error" });
                run.hit(if is_std { "spawner-std" } else { "spawner-mock" });
                if attempts >= 2 {
                    run.nontrivial(&format!("{}{}", if is_std { "S" } else { "M" }, key));
                }
                run.end_op(&render(&o, is_std));
            }
            _ => run.end_op("bad-op"),
        }
    }
}

#[test]
fn entry() {
    let stream = std::env::var("VERIF_STREAM").unwrap_or_default();
    match stream.as_str() {
        "c36_task" => common::drive(
            "c36_task",
            "real spawner_task under a paused tokio clock; scripted mock Spawner (durations 0/1/250/999/1000/1001/2500 ms, outcomes incomplete/complete/Err) or real StandardSpawner with hard-coded DNS and scripted delays; 0-10 system events (removed D/N/U, registered, idle) with gaps around the 1 s period (incl. exact ties and out-of-order stamps), close 0-3.5 s after the last event; non-trivial = at least two try_spawn calls; distinct by the sequence of attempt kinds (first / on deadline / on event with ticket, completing or not) and handled events",
            gen_task_case,
            exec_task_case,
        ),
        other => panic!("unknown VERIF_STREAM {:?}", other),
    }
}
