//! C20 harness in the DAEMON (cluster `filt`), included into `ntpd/src/daemon/config/server.rs` (guarded hook).
//!
//! Stream (VERIF_STREAM):
//!   c20_config — a `[server]` TOML section is generated (listen, rate-limiting-cache-size in {omitted, 0, 1, 2, 32,
//!                65536}, rate-limiting-cutoff-ms in {omitted, 0, 1, 1000, 3600000}, allow / deny lists with both
//!                actions), parsed with the daemon's real deserialiser, converted with the real
//!                `From<ServerConfig> for ntp_proto::ServerConfig`, and the real `ntp_proto::Server` is built from
//!                it exactly as the daemon does.  Requests (a plain NTPv4 poll) are then sent from a few addresses,
//!                back to back or after a measured busy-wait.  The op lines are those of `c20_policy`, so the same
//!                Lean model (`RateCache.intended`) answers them — with the cache size and cutoff AS WRITTEN in the
//!                TOML, not as converted.
//! What cannot be read from this crate and how it is handled:
//!   * the cache slot of an address (private `RandomState`): cases use cache sizes 0 and 1 with several
//!     addresses (slot 0 by construction) and larger caches with ONE address (the hash is then irrelevant);
//!   * the `Instant::now()` inside `intended_action`: every call is bracketed by two `Instant`s; the model is
//!     given the instant before the call, which differs from the internal one by less than the bracket; when the
//!     bracket straddles the cutoff (pre-emption) the time is taken so that it matches the observation and the
//!     case is counted as `ambiguous-time` (oracles skipped for that request).
//! Implementation-only oracles: `c20_config_conversion_identity` (converted size / cutoff equal the configured
//! ones), `c20_size_zero_never_limited` (configured size 0 or omitted: no request is refused for rate reasons),
//! `c20_limited_only_if_own_recent` / `c20_limited_if_recent` on the measured brackets.
#![allow(clippy::all, clippy::pedantic)]

#[path = "../common/mod.rs"]
mod common;

use super::super::*;
use common::{hex, kv, unhex, Rng, Run};
use ntp_proto::{
    IpSubnet, KeySetProvider, NoCipher, NtpClock, NtpDuration, NtpLeapIndicator, NtpPacket, NtpTimestamp,
    PollIntervalLimits, Server, ServerReason, ServerResponse, ServerStatHandler,
};
use std::convert::Infallible;
use std::io::Cursor;
use std::net::IpAddr;
use std::sync::Arc;
use std::time::{Duration, Instant};

#[derive(Debug, Clone, Default)]
struct FixedClock;
impl NtpClock for FixedClock {
    type Error = Infallible;
    fn now(&self) -> Result<NtpTimestamp, Self::Error> {
        Ok(NtpTimestamp::from_seconds_nanos_since_ntp_era(1000, 0))
    }
    fn set_frequency(&self, _freq: f64) -> Result<NtpTimestamp, Self::Error> {
        unimplemented!()
    }
    fn get_frequency(&self) -> Result<f64, Self::Error> {
        Ok(0.0)
    }
    fn step_clock(&self, _offset: NtpDuration) -> Result<NtpTimestamp, Self::Error> {
        unimplemented!()
    }
    fn disable_ntp_algorithm(&self) -> Result<(), Self::Error> {
        unimplemented!()
    }
    fn error_estimate_update(&self, _est_error: NtpDuration, _max_error: NtpDuration) -> Result<(), Self::Error> {
        unimplemented!()
    }
    fn status_update(&self, _leap_status: NtpLeapIndicator) -> Result<(), Self::Error> {
        unimplemented!()
    }
}

#[derive(Default)]
struct Rec {
    last: Option<(ServerReason, ServerResponse)>,
}
impl ServerStatHandler for Rec {
    fn register(&mut self, _version: u8, _nts: bool, reason: ServerReason, response: ServerResponse) {
        self.last = Some((reason, response));
    }
}

#[derive(serde::Deserialize, Debug)]
struct TestConfig {
    server: ServerConfig,
}

const POOL: &[&str] = &["192.0.2.33", "192.0.2.34", "198.51.100.7", "10.1.2.3"];
const NETS: &[&str] = &["192.0.2.0/24", "192.0.2.33/32", "198.51.100.0/24", "10.0.0.0/8", "0.0.0.0/0"];

fn gen_case(rng: &mut Rng, idx: u64, _run: &Run) -> Vec<String> {
    // as written in the TOML (None = line omitted, serde default 0)
    let size: Option<u64> = match idx % 6 {
        0 => None,
        1 => Some(0),
        2 => Some(1),
        3 => Some(2),
        4 => Some(32),
        _ => Some(65536),
    };
    let cutoff_ms: Option<u64> = match (idx / 6) % 5 {
        0 => None,
        1 => Some(0),
        2 => Some(1),
        3 => Some(1000),
        _ => Some(3_600_000),
    };
    let mut toml = String::from("[server]\nlisten = \"127.0.0.1:123\"\n");
    if let Some(s) = size {
        toml.push_str(&format!("rate-limiting-cache-size = {}\n", s));
    }
    if let Some(c) = cutoff_ms {
        toml.push_str(&format!("rate-limiting-cutoff-ms = {}\n", c));
    }
    let mut denyact = "Deny";
    let mut allowact = "Ignore";
    if rng.chance(1, 3) {
        let n = rng.usize(0, 2);
        let nets: Vec<String> = (0..n).map(|_| format!("\"{}\"", rng.pick(&NETS[..4]))).collect();
        denyact = *rng.pick(&["Deny", "Ignore"]);
        toml.push_str(&format!("[server.denylist]\nfilter = [{}]\naction = \"{}\"\n", nets.join(", "), denyact.to_lowercase()));
    }
    if rng.chance(1, 3) {
        let n = rng.usize(1, 3);
        let nets: Vec<String> = (0..n).map(|_| format!("\"{}\"", rng.pick(NETS))).collect();
        allowact = *rng.pick(&["Deny", "Ignore"]);
        toml.push_str(&format!("[server.allowlist]\nfilter = [{}]\naction = \"{}\"\n", nets.join(", "), allowact.to_lowercase()));
    }
    let n = size.unwrap_or(0);
    let mut ops = vec![format!(
        "cfg n={} cutoff={} cutoff_ms={} denyact={} allowact={} toml={}",
        n,
        cutoff_ms.unwrap_or(0) * 1_000_000,
        cutoff_ms.unwrap_or(0),
        denyact,
        allowact,
        hex(toml.as_bytes())
    )];
    // several addresses only where the slot is known without the private hash (sizes 0 and 1)
    let pool_n = if n <= 1 { rng.usize(1, POOL.len()) } else { 1 };
    let first = rng.usize(0, POOL.len() - pool_n);
    let len = rng.usize(2, 8);
    let mut waits = 0;
    for _ in 0..len {
        if waits < 2 && rng.chance(1, 5) {
            // longer than the 1 ms cutoff
            ops.push("wait ns=2500000".to_string());
            waits += 1;
        }
        ops.push(format!("req ip={}", POOL[first + rng.usize(0, pool_n - 1)]));
    }
    ops
}

fn lies_in(net: &IpSubnet, ip: IpAddr) -> bool {
    match (net.addr, ip) {
        (IpAddr::V4(n), IpAddr::V4(a)) => {
            let (n, a) = (u32::from(n), u32::from(a));
            net.mask == 0 || (n ^ a) >> (32 - net.mask as u32) == 0
        }
        _ => false,
    }
}

fn exec_case(ops: &[String], run: &mut Run) {
    let base = Instant::now();
    let mut server: Option<Server<FixedClock>> = None;
    let mut proto_cfg: Option<ntp_proto::ServerConfig> = None;
    let (mut size, mut cutoff_ns, mut cutoff_ms): (u64, u64, u64) = (0, 0, 0);
    // last list-passing request (all cases use slot 0, see the module comment):
    // (address, model time, instant before the call, instant after the call)
    let mut last: Option<(IpAddr, u64, u64, u64)> = None;
    let mut key = String::new();
    let mut interesting = false;

    let (packet, _id) = NtpPacket::poll_message(PollIntervalLimits::default().min);
    let mut request = vec![0u8; 48];
    let mut cursor = Cursor::new(request.as_mut_slice());
    packet.serialize(&mut cursor, &NoCipher, None).expect("serialize poll");

    for op in ops {
        run.begin_op(op);
        let w: Vec<&str> = op.split_whitespace().collect();
        match w.first().copied() {
            Some("cfg") => {
                size = kv(&w, "n").and_then(|s| s.parse().ok()).expect("n");
                cutoff_ns = kv(&w, "cutoff").and_then(|s| s.parse().ok()).expect("cutoff");
                cutoff_ms = kv(&w, "cutoff_ms").and_then(|s| s.parse().ok()).expect("cutoff_ms");
                let text = String::from_utf8(unhex(kv(&w, "toml").expect("toml")).expect("hex")).expect("utf8");
                let parsed: TestConfig = match toml::from_str(&text) {
                    Ok(c) => c,
                    Err(e) => {
                        run.oracle_fail("c20_config_parses", "", &format!("{} | {}", text.replace('\n', "; "), e));
                        run.end_op("err:toml");
                        return;
                    }
                };
                // the daemon's conversion (ntpd/src/daemon/server.rs: `config.into()`)
                let converted: ntp_proto::ServerConfig = parsed.server.into();
                if converted.rate_limiting_cache_size as u64 != size
                    || converted.rate_limiting_cutoff != Duration::from_millis(cutoff_ms)
                {
                    run.oracle_fail(
                        "c20_config_conversion_identity",
                        &format!("size={} cutoff_ms={}", size, cutoff_ms),
                        &format!(
                            "configured cache size {} cutoff {} ms, converted to size {} cutoff {:?} | {}",
                            size,
                            cutoff_ms,
                            converted.rate_limiting_cache_size,
                            converted.rate_limiting_cutoff,
                            text.replace('\n', "; ")
                        ),
                    );
                }
                proto_cfg = Some(converted.clone());
                server = Some(Server::new_internal(converted, FixedClock, Arc::default(), KeySetProvider::new(1).get()));
                key.push_str(&format!("n{}c{};", size, cutoff_ms));
                run.hit(&format!("size={}", size));
                run.hit(&format!("cutoff_ms={}", cutoff_ms));
                run.end_op("ok");
            }
            Some("wait") => {
                let ns: u64 = kv(&w, "ns").and_then(|s| s.parse().ok()).expect("ns");
                let start = Instant::now();
                while start.elapsed() < Duration::from_nanos(ns) {
                    std::hint::spin_loop();
                }
                run.end_op("ok");
            }
            Some("req") => {
                let srv = server.as_mut().expect("cfg first");
                let cfg = proto_cfg.as_ref().expect("cfg first");
                let ip: IpAddr = kv(&w, "ip").expect("ip").parse().expect("ip");
                let in_deny = cfg.denylist.filter.iter().any(|n| lies_in(n, ip));
                let in_allow = cfg.allowlist.filter.iter().any(|n| lies_in(n, ip));
                let passes = !in_deny && in_allow;
                let mut stats = Rec::default();
                let mut buf = [0u8; 48];
                let before = base.elapsed().as_nanos() as u64;
                let _ = srv.handle(ip, NtpTimestamp::from_seconds_nanos_since_ntp_era(999, 0), &request, &mut buf, &mut stats);
                let after = base.elapsed().as_nanos() as u64;
                let (reason, resp) = stats.last.expect("one registration per datagram");
                let limited = reason == ServerReason::RateLimit;

                // the time handed to the model: the instant before the call, unless the bracket straddles
                // the cutoff (then the time that matches the observation)
                let mut t = before;
                let mut ambiguous = false;
                if passes && size > 0 {
                    if let Some((who, t0, b0, a0)) = last {
                        if who == ip {
                            let el_min = before.saturating_sub(a0);
                            let el_max = after.saturating_sub(b0);
                            if el_max < cutoff_ns {
                                if !limited {
                                    run.oracle_fail("c20_limited_if_recent", &format!("size={} cutoff_ms={}", size, cutoff_ms),
                                        &format!("{} asked again at most {} ns after its previous list-passing request, cutoff {} ns, not limited ({:?}/{:?})", ip, el_max, cutoff_ns, resp, reason));
                                }
                            } else if el_min >= cutoff_ns {
                                if limited {
                                    run.oracle_fail("c20_limited_only_if_own_recent", &format!("size={} cutoff_ms={}", size, cutoff_ms),
                                        &format!("{} limited although its previous list-passing request was at least {} ns ago, cutoff {} ns", ip, el_min, cutoff_ns));
                                }
                            } else {
                                ambiguous = true;
                                run.hit("ambiguous-time");
                                t = if limited { t0 + cutoff_ns - 1 } else { t0 + cutoff_ns };
                            }
                            if !ambiguous {
                                // keep the model's difference inside the measured bracket
                                t = t.max(t0);
                            }
                        } else if limited {
                            run.oracle_fail("c20_limited_only_if_own_recent", &format!("size={} cutoff_ms={}", size, cutoff_ms),
                                &format!("{} limited although the only cache slot was last used by {}", ip, who));
                        }
                    } else if limited {
                        run.oracle_fail("c20_limited_only_if_own_recent", &format!("size={} cutoff_ms={}", size, cutoff_ms),
                            &format!("{} limited on the first list-passing request", ip));
                    }
                }
                if size == 0 && limited {
                    run.oracle_fail(
                        "c20_size_zero_never_limited",
                        &format!("size=0 cutoff_ms={}", cutoff_ms),
                        &format!("configured rate-limiting-cache-size 0 (cutoff {} ms) but the request from {} was refused: {:?}/{:?}", cutoff_ms, ip, resp, reason),
                    );
                }
                if !passes && limited {
                    run.oracle_fail("c20_limited_only_if_own_recent", "", &format!("{} did not pass the lists but was rate-limited", ip));
                }
                if passes && size > 0 {
                    last = Some((ip, t, before, after));
                }
                if limited || (size == 0 && cutoff_ms > 0 && passes) {
                    interesting = true;
                }
                let a = match ip {
                    IpAddr::V4(x) => hex(&x.octets()),
                    IpAddr::V6(x) => hex(&x.octets()),
                };
                let obs = format!("{:?}/{:?}", resp, reason);
                run.hit(&obs);
                key.push_str(match (passes, limited) {
                    (false, _) => "b",
                    (true, true) => "L",
                    (true, false) => "p",
                });
                run.end_op_as(
                    &format!("req ip={} a={} deny={} allow={} slot=0 t={} cutoff={}", ip, a, in_deny as u8, in_allow as u8, t, cutoff_ns),
                    &obs,
                );
            }
            _ => run.end_op("bad-op"),
        }
    }
    if interesting {
        run.nontrivial(&key);
    }
}

#[test]
fn entry() {
    let stream = std::env::var("VERIF_STREAM").unwrap_or_default();
    match stream.as_str() {
        "c20_config" => common::drive(
            "c20_config",
            "daemon [server] TOML (cache size omitted/0/1/2/32/65536 x cutoff-ms omitted/0/1/1000/3600000 cycled exhaustively, allow/deny lists, both actions) -> real deserialiser -> real From<ServerConfig> -> real ntp_proto::Server; 2-8 polls from 1-4 addresses back to back or after a 2.5 ms busy-wait; model gets size and cutoff AS WRITTEN; non-trivial = a RateLimit answer, or repeated list-passing requests with size 0 and cutoff > 0; distinct by config + outcome string",
            gen_case,
            exec_case,
        ),
        other => panic!("unknown VERIF_STREAM {:?}", other),
    }
}
