//! verification harness module included into `ntpd/src/daemon/config/ntp_source.rs` (guarded hook).
