//! verification harness module included into `ntpd/src/daemon/spawn/mod.rs` (guarded hook).
