//! verification harness module included into `ntpd/src/daemon/server.rs` (guarded hook), property C21.
//!
//! Stream `c21_counters`: the REAL `ServerStats` (the daemon's `ServerStatHandler`) is fed statistics entries and
//! all eleven counters are read back after every entry.
//!
//! Op lines (model input)                                         observation
//!   reset                                                         ok
//!   reg v=<n> nts=<0|1> reason=<rate|parse|crypto|internal|policy> resp=<nak|deny|ignore|time>
//!                                                                 recv=.. acc=.. den=.. ign=.. rl=.. se=.. nrecv=.. nacc=.. nden=.. nrl=.. nnak=..
//!   (the generator also writes `handle kind=<k> …`: a real `ntp_proto::Server::handle` call with a wrapper handler
//!    that forwards to the real `ServerStats` and records the entries; the executor logs the recorded entries as
//!    `reg` lines, so logged cases replay verbatim)
//!
//! The first cases enumerate every (nts, reason, response) combination systematically.
//! Oracle (the property itself, on the counters, no model involved):
//!   received == accepted + denied + ignored + rate_limited + nts_nak      (every datagram is filed under one kind)
//!   every counter changes by 0 or 1 per entry, received by exactly 1; response_send_errors is never touched
//!   nts counters only move when the nts flag is set; nts_received moves exactly then
#![allow(clippy::all, clippy::pedantic)]

#[path = "../common/mod.rs"]
mod common;

use super::super::*;
use common::{kv, Rng, Run};
use ntp_proto::{FilterAction, FilterList, NtpDuration, NtpLeapIndicator, NtpTimestamp, NtpVersion};
use std::net::IpAddr;

#[derive(Clone, Default)]
struct Clk;

impl NtpClock for Clk {
    type Error = std::io::Error;
    fn now(&self) -> Result<NtpTimestamp, Self::Error> {
        Ok(NtpTimestamp::from_seconds_nanos_since_ntp_era(100, 0))
    }
    fn set_frequency(&self, _freq: f64) -> Result<NtpTimestamp, Self::Error> {
        panic!("not used by the server")
    }
    fn get_frequency(&self) -> Result<f64, Self::Error> {
        Ok(0.0)
    }
    fn step_clock(&self, _offset: NtpDuration) -> Result<NtpTimestamp, Self::Error> {
        panic!("not used by the server")
    }
    fn disable_ntp_algorithm(&self) -> Result<(), Self::Error> {
        panic!("not used by the server")
    }
    fn error_estimate_update(&self, _e: NtpDuration, _m: NtpDuration) -> Result<(), Self::Error> {
        panic!("not used by the server")
    }
    fn status_update(&self, _l: NtpLeapIndicator) -> Result<(), Self::Error> {
        panic!("not used by the server")
    }
}

/// forwards to the daemon's real handler and records what it was told
struct Tee<'a> {
    real: &'a mut ServerStats,
    seen: Vec<(u8, bool, ServerReason, ServerResponse)>,
}

impl ServerStatHandler for Tee<'_> {
    fn register(&mut self, version: u8, nts: bool, reason: ServerReason, response: ServerResponse) {
        self.seen.push((version, nts, reason, response));
        self.real.register(version, nts, reason, response);
    }
}

const REASONS: &[(&str, ServerReason)] = &[
    ("rate", ServerReason::RateLimit),
    ("parse", ServerReason::ParseError),
    ("crypto", ServerReason::InvalidCrypto),
    ("internal", ServerReason::InternalError),
    ("policy", ServerReason::Policy),
];
const RESPS: &[(&str, ServerResponse)] = &[
    ("nak", ServerResponse::NTSNak),
    ("deny", ServerResponse::Deny),
    ("ignore", ServerResponse::Ignore),
    ("time", ServerResponse::ProvideTime),
];

fn snapshot(s: &ServerStats) -> [u64; 11] {
    [
        s.received_packets.get(),
        s.accepted_packets.get(),
        s.denied_packets.get(),
        s.ignored_packets.get(),
        s.rate_limited_packets.get(),
        s.response_send_errors.get(),
        s.nts_received_packets.get(),
        s.nts_accepted_packets.get(),
        s.nts_denied_packets.get(),
        s.nts_rate_limited_packets.get(),
        s.nts_nak_packets.get(),
    ]
}

fn obs(c: &[u64; 11]) -> String {
    format!(
        "recv={} acc={} den={} ign={} rl={} se={} nrecv={} nacc={} nden={} nrl={} nnak={}",
        c[0], c[1], c[2], c[3], c[4], c[5], c[6], c[7], c[8], c[9], c[10]
    )
}

fn check(run: &mut Run, before: &[u64; 11], after: &[u64; 11], nts: bool, what: &str) {
    let attrs = format!("entry={}", what.replace(' ', ","));
    if after[0] != after[1] + after[2] + after[3] + after[4] + after[10] {
        run.oracle_fail("c21_counters_sum", &attrs, &format!("received {} != accepted {} + denied {} + ignored {} + rate limited {} + nak {}", after[0], after[1], after[2], after[3], after[4], after[10]));
    }
    if after[0] != before[0] + 1 {
        run.oracle_fail("c21_counters_received", &attrs, "received did not move by exactly one");
    }
    for i in 0..11 {
        if after[i] < before[i] || after[i] > before[i] + 1 {
            run.oracle_fail("c21_counters_step", &attrs, &format!("counter {} moved from {} to {}", i, before[i], after[i]));
        }
    }
    if after[5] != before[5] {
        run.oracle_fail("c21_counters_send_errors", &attrs, "register touched response_send_errors");
    }
    let nts_moved = (6..10).any(|i| after[i] != before[i]);
    if (!nts && nts_moved) || (nts && after[6] != before[6] + 1) {
        run.oracle_fail("c21_counters_nts", &attrs, "nts counters do not follow the nts flag");
    }
}

fn real_server(deny_all: bool, rate: bool) -> Server<Clk> {
    let all: Vec<ntp_proto::IpSubnet> = vec!["0.0.0.0/0".parse().unwrap(), "::/0".parse().unwrap()];
    let cfg = ntp_proto::ServerConfig {
        denylist: FilterList { filter: if deny_all { all.clone() } else { vec![] }, action: FilterAction::Deny },
        allowlist: FilterList { filter: all, action: FilterAction::Ignore },
        rate_limiting_cache_size: if rate { 1 } else { 0 },
        rate_limiting_cutoff: Duration::from_secs(if rate { 3600 } else { 0 }),
        require_nts: None,
        accepted_versions: vec![NtpVersion::V4],
    };
    Server::new_internal(cfg, Clk, Arc::default(), ntp_proto::KeySetProvider::new(1).get())
}

fn exec_case(ops: &[String], run: &mut Run) {
    let mut stats = ServerStats::default();
    for op in ops {
        let words: Vec<&str> = op.split(' ').collect();
        match words.first().copied() {
            Some("reset") => {
                run.begin_op(op);
                stats = ServerStats::default();
                run.end_op("ok");
            }
            Some("reg") => {
                run.begin_op(op);
                let r = &words[1..];
                let v: u8 = kv(r, "v").unwrap().parse().unwrap();
                let nts = kv(r, "nts") == Some("1");
                let reason = REASONS.iter().find(|x| Some(x.0) == kv(r, "reason")).expect("reason").1;
                let resp = RESPS.iter().find(|x| Some(x.0) == kv(r, "resp")).expect("resp").1;
                let before = snapshot(&stats);
                stats.register(v, nts, reason, resp);
                let after = snapshot(&stats);
                check(run, &before, &after, nts, op);
                run.nontrivial(&format!("{}/{}/{}", nts as u8, kv(r, "reason").unwrap(), kv(r, "resp").unwrap()));
                run.end_op(&obs(&after));
            }
            Some("handle") => {
                // a real request through a real server; its entries are logged as `reg` lines
                let r = &words[1..];
                let kind = kv(r, "kind").unwrap_or("ok");
                let mut pkt = vec![0u8; 48];
                pkt[0] = (4 << 3) | 3;
                let (deny_all, rate, buf, msg): (bool, bool, usize, Vec<u8>) = match kind {
                    "ok" => (false, false, 48, pkt),
                    "deny" => (true, false, 48, pkt),
                    "small" => (false, false, 10, pkt),
                    "garbage" => (false, false, 48, vec![0xff; 7]),
                    "server" => {
                        pkt[0] = (4 << 3) | 4;
                        (false, false, 48, pkt)
                    }
                    "v3" => {
                        pkt[0] = (3 << 3) | 3;
                        (false, false, 48, pkt)
                    }
                    _ => (false, true, 48, pkt),
                };
                let mut server = real_server(deny_all, rate);
                let n = if kind == "rate" { 2 } else { 1 };
                for _ in 0..n {
                    let before = snapshot(&stats);
                    let mut tee = Tee { real: &mut stats, seen: vec![] };
                    let mut out = vec![0u8; buf];
                    let ip: IpAddr = "10.0.0.1".parse().unwrap();
                    let _ = server.handle(ip, NtpTimestamp::from_seconds_nanos_since_ntp_era(100, 0), &msg, &mut out, &mut tee);
                    let seen = tee.seen.clone();
                    let after = snapshot(&stats);
                    if seen.len() != 1 {
                        run.oracle_fail("c21_counters_entries", &format!("kind={}", kind), &format!("{} entries for one datagram", seen.len()));
                    }
                    for (v, nts, reason, resp) in seen {
                        let line = format!(
                            "reg v={} nts={} reason={} resp={}",
                            v,
                            nts as u8,
                            REASONS.iter().find(|x| x.1 == reason).unwrap().0,
                            RESPS.iter().find(|x| x.1 == resp).unwrap().0
                        );
                        run.begin_op(&line);
                        check(run, &before, &after, nts, &line);
                        run.nontrivial(&format!("real/{}", kind));
                        run.end_op(&obs(&after));
                    }
                }
            }
            _ => panic!("unknown op {:?}", op),
        }
    }
}

fn gen_case(rng: &mut Rng, idx: u64) -> Vec<String> {
    let mut ops = vec!["reset".to_string()];
    let combos = 2 * REASONS.len() as u64 * RESPS.len() as u64;
    let n = rng.usize(1, 12);
    for k in 0..n {
        // the first entry of case i is combination i mod 40; the others are random entries or real requests
        let c = if k == 0 { idx % combos } else { rng.below(combos) };
        if k > 0 && rng.chance(1, 3) {
            ops.push(format!("handle kind={}", rng.pick(&["ok", "deny", "small", "garbage", "server", "v3", "rate"])));
            continue;
        }
        let nts = c % 2;
        let reason = REASONS[((c / 2) % REASONS.len() as u64) as usize].0;
        let resp = RESPS[((c / 2 / REASONS.len() as u64) % RESPS.len() as u64) as usize].0;
        ops.push(format!("reg v={} nts={} reason={} resp={}", rng.pick(&[0u8, 3, 4, 5, 7]), nts, reason, resp));
    }
    ops
}

#[test]
fn entry() {
    let stream = std::env::var("VERIF_STREAM").unwrap_or_default();
    match stream.as_str() {
        "c21_counters" => common::drive(
            "c21_counters",
            "the daemon's real ServerStats fed every (nts, reason, response) combination (case i starts with combination i mod 40), random entries, and the entries real ntp_proto::Server::handle calls produce (accepted, denied, answer too large for the buffer, garbage, server-mode packet, non-accepted version, rate limited); all eleven counters read back after every entry and compared with Model/Server.countersOf; non-trivial = an entry was registered; distinct by (nts, reason, response) / kind of real request",
            |rng, idx, _run| gen_case(rng, idx),
            exec_case,
        ),
        other => panic!("unknown VERIF_STREAM {:?}", other),
    }
}
