//! verification harness module included into `ntpd/src/daemon/server.rs` (guarded hook), property C16.
//!
//! Stream `c16_daemon`: the REAL `ServerTask` serves on a loopback UDP socket; real datagrams are sent to it and
//! every reply is measured.  This exercises the daemon's own buffer handling (what it hands `Server::handle`),
//! which the proto-level streams cannot see.
//!
//! Op lines                                   observation
//!   srv deny=<0|1>                             ok | nobind
//!   dgram msg=<hex>                            reply len=<n> | noreply
//! No model is involved.  Oracle (the property itself):
//!   c16_daemon_no_amplification    len(reply) <= len(request) for every reply
//! The requests are the shapes whose answer WOULD exceed the request if the buffer allowed it: NTPv4 unique
//! identifiers of 4..12 octets (re-encoded at 16 / 28), the same followed by a 13..15 / 17..23-octet MAC (request
//! length not a multiple of 4), NTPv5 short fields, requests with an undecryptable NTS authenticator (NAK answers
//! echo the identifiers), against an accepting and against a denying server (DENY answers echo them too), plus
//! ordinary 48-octet polls (which must be answered: they show the exchange works at all).
//! Socket tests are flaky under load: a server that cannot be reached or a lost datagram is counted
//! (`hit`) and skipped; the stream requires a minimum number of successful exchanges (`min_nontrivial`).
#![allow(clippy::all, clippy::pedantic)]

#[path = "../common/mod.rs"]
mod common;

use super::super::*;
use common::{kv, Rng, Run};
use ntp_proto::{FilterAction, FilterList, KeySetProvider, NtpDuration, NtpLeapIndicator, NtpTimestamp, NtpVersion};
use std::net::SocketAddr;
use std::sync::OnceLock;

#[derive(Clone, Default)]
struct Clk;

impl NtpClock for Clk {
    type Error = std::io::Error;
    fn now(&self) -> Result<NtpTimestamp, Self::Error> {
        Ok(NtpTimestamp::from_seconds_nanos_since_ntp_era(100, 0))
    }
    fn set_frequency(&self, _freq: f64) -> Result<NtpTimestamp, Self::Error> {
        panic!("not used by the server")
    }
    fn get_frequency(&self) -> Result<f64, Self::Error> {
        Ok(0.0)
    }
    fn step_clock(&self, _offset: NtpDuration) -> Result<NtpTimestamp, Self::Error> {
        panic!("not used by the server")
    }
    fn disable_ntp_algorithm(&self) -> Result<(), Self::Error> {
        panic!("not used by the server")
    }
    fn error_estimate_update(&self, _e: NtpDuration, _m: NtpDuration) -> Result<(), Self::Error> {
        panic!("not used by the server")
    }
    fn status_update(&self, _l: NtpLeapIndicator) -> Result<(), Self::Error> {
        panic!("not used by the server")
    }
}

fn runtime() -> &'static tokio::runtime::Runtime {
    static RT: OnceLock<tokio::runtime::Runtime> = OnceLock::new();
    RT.get_or_init(|| tokio::runtime::Builder::new_multi_thread().worker_threads(2).enable_all().build().expect("tokio runtime"))
}

fn hexs(b: &[u8]) -> String {
    b.iter().map(|x| format!("{:02x}", x)).collect()
}

fn unhex(s: &str) -> Vec<u8> {
    (0..s.len() / 2).map(|i| u8::from_str_radix(&s[2 * i..2 * i + 2], 16).unwrap_or(0)).collect()
}

fn field(ty: u16, body: &[u8]) -> Vec<u8> {
    let mut f = ty.to_be_bytes().to_vec();
    f.extend_from_slice(&((4 + body.len()) as u16).to_be_bytes());
    f.extend_from_slice(body);
    while f.len() % 4 != 0 {
        f.push(0);
    }
    f
}

fn header(rng: &mut Rng, version: u8) -> Vec<u8> {
    let mut h = vec![0u8; 48];
    h[0] = (version << 3) | 3;
    h[2] = 6;
    for b in &mut h[24..48] {
        *b = rng.next_u64() as u8;
    }
    if version == 5 {
        // timescale / era / flags zero, cookies random
        for b in &mut h[12..16] {
            *b = 0;
        }
    }
    h
}

fn gen_dgram(rng: &mut Rng, k: u64) -> Vec<u8> {
    match k % 6 {
        // ordinary poll: must be answered
        0 => header(rng, 4),
        // NTPv4 short identifier, nothing after it
        1 => {
            let mut m = header(rng, 4);
            let ul = 4 * rng.usize(1, 3);
            m.extend(field(0x0104, &rng.bytes(ul)));
            m
        }
        // NTPv4 short identifier followed by a MAC whose length is not a multiple of four
        2 => {
            let mut m = header(rng, 4);
            let ul = 4 * rng.usize(1, 3);
            m.extend(field(0x0104, &rng.bytes(ul)));
            let n = *rng.pick(&[13usize, 14, 15, 17, 18, 19, 21, 22, 23]);
            m.extend(rng.bytes(n));
            m
        }
        // NTPv5: draft identification and short identifiers
        3 => {
            let mut m = header(rng, 5);
            for _ in 0..rng.usize(1, 3) {
                let l = rng.usize(0, 12);
                m.extend(field(0x0104, &rng.bytes(l)));
            }
            m.extend(field(0xF5FF, b"draft-ietf-ntp-ntpv5-09"));
            m
        }
        // NTPv4 with an NTS authenticator that cannot be decrypted (short nonce) and a short identifier: NAK / DENY
        4 => {
            let mut m = header(rng, 4);
            let ul = 4 * rng.usize(1, 3);
            m.extend(field(0x0104, &rng.bytes(ul)));
            let nonce = *rng.pick(&[0usize, 4, 8, 12]);
            let mut body = (nonce as u16).to_be_bytes().to_vec();
            body.extend_from_slice(&16u16.to_be_bytes());
            body.extend(rng.bytes(nonce + 16));
            m.extend(field(0x0404, &body));
            m
        }
        // two short identifiers and a MAC
        _ => {
            let mut m = header(rng, 4);
            m.extend(field(0x0104, &rng.bytes(4)));
            m.extend(field(0x0104, &rng.bytes(8)));
            let ml = *rng.pick(&[0usize, 13, 15, 20]);
            m.extend(rng.bytes(ml));
            m
        }
    }
}

fn gen_case(rng: &mut Rng, idx: u64) -> Vec<String> {
    let mut ops = vec![format!("srv deny={}", idx % 2)];
    for k in 0..6u64 {
        ops.push(format!("dgram msg={}", hexs(&gen_dgram(rng, idx / 2 * 6 + k))));
    }
    ops
}

fn exec_case(ops: &[String], run: &mut Run) {
    let rt = runtime();
    let mut port: Option<u16> = None;
    let mut join: Option<JoinHandle<()>> = None;
    for op in ops {
        let words: Vec<&str> = op.split(' ').collect();
        match words.first().copied() {
            Some("srv") => {
                run.begin_op(op);
                let deny = kv(&words[1..], "deny") == Some("1");
                // a free port: bind, read the port, release
                let p = std::net::UdpSocket::bind("127.0.0.1:0").ok().and_then(|s| s.local_addr().ok()).map(|a| a.port());
                let Some(p) = p else {
                    run.hit("nobind");
                    run.end_op("nobind");
                    continue;
                };
                let all: Vec<ntp_proto::IpSubnet> = vec!["0.0.0.0/0".parse().unwrap(), "::/0".parse().unwrap()];
                let config = ServerConfig {
                    listen: SocketAddr::new("127.0.0.1".parse().unwrap(), p),
                    denylist: FilterList { filter: if deny { all.clone() } else { vec![] }, action: FilterAction::Deny },
                    allowlist: FilterList { filter: all, action: FilterAction::Ignore },
                    rate_limiting_cache_size: 0,
                    rate_limiting_cutoff: Duration::default(),
                    require_nts: None,
                    accept_ntp_versions: vec![NtpVersion::V3, NtpVersion::V4, NtpVersion::V5],
                };
                let j = rt.block_on(async {
                    let (_tx, keyset) = tokio::sync::watch::channel(KeySetProvider::new(1).get());
                    let server = Server::new_internal(config.clone().into(), Clk, Arc::default(), keyset.borrow().clone());
                    let j = ServerTask::spawn(server, config, ServerStats::default(), keyset, Duration::from_millis(20));
                    // keep the sender alive as long as the task
                    std::mem::forget(_tx);
                    tokio::time::sleep(Duration::from_millis(30)).await;
                    j
                });
                port = Some(p);
                join = Some(j);
                run.end_op("ok");
            }
            Some("dgram") => {
                run.begin_op(op);
                let msg = unhex(kv(&words[1..], "msg").unwrap_or(""));
                let Some(p) = port else {
                    run.hit("noserver");
                    run.end_op("noreply");
                    continue;
                };
                let reply: Option<usize> = rt.block_on(async {
                    let sock = tokio::net::UdpSocket::bind("127.0.0.1:0").await.ok()?;
                    sock.connect(("127.0.0.1", p)).await.ok()?;
                    let mut buf = vec![0u8; 2048];
                    for _attempt in 0..2 {
                        sock.send(&msg).await.ok()?;
                        if let Ok(Ok(n)) = tokio::time::timeout(Duration::from_millis(120), sock.recv(&mut buf)).await {
                            return Some(n);
                        }
                    }
                    None
                });
                match reply {
                    Some(n) => {
                        run.nontrivial(&format!("{}/{}", msg.len(), n));
                        run.hit("reply");
                        if n > msg.len() {
                            run.oracle_fail(
                                "c16_daemon_no_amplification",
                                &format!("req={} reply={}", msg.len(), n),
                                &format!("the daemon answered a {}-octet datagram with {} octets", msg.len(), n),
                            );
                        }
                        // the observation does not carry the length (timing decides which datagrams are answered
                        // at all); the oracle above is the check
                        run.end_op("reply");
                    }
                    None => {
                        run.hit("noreply");
                        run.end_op("noreply");
                    }
                }
            }
            _ => panic!("unknown op {:?}", op),
        }
    }
    if let Some(j) = join {
        j.abort();
    }
}

#[test]
fn entry() {
    let stream = std::env::var("VERIF_STREAM").unwrap_or_default();
    match stream.as_str() {
        "c16_daemon" => common::drive(
            "c16_daemon",
            "the real ServerTask on a loopback UDP socket (one per case, alternately accepting and denying); six real datagrams per case: 48-octet poll, NTPv4 identifiers of 4..12 octets, the same with a 13..23-octet MAC (length not a multiple of 4), NTPv5 short fields, undecryptable NTS authenticator with a short nonce, two short identifiers; every reply measured; non-trivial = a reply was received; distinct by (request length, reply length)",
            |rng, idx, _run| gen_case(rng, idx),
            exec_case,
        ),
        other => panic!("unknown VERIF_STREAM {:?}", other),
    }
}
