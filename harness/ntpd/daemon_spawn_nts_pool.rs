//! verification harness module included into `ntpd/src/daemon/spawn/nts_pool.rs` (guarded hook).
