//! verification harness module included into `ntpd/src/daemon/system.rs` (guarded hook), property C36.
//! Child of `crate::daemon::system`, so it sees the private `SystemTask` and its private methods.
//!
//! Stream `c36_system`: the REAL `SystemTask` (the caller that turns a source task's `MsgForSystem` into the
//! `SourceRemovalReason` handed to the spawner) with 1..3 REAL spawners (`StandardSpawner` / `PoolSpawner`
//! behind the cfg(test) hard-coded DNS helper, loop-back addresses) running in the real `spawner_task`, on a
//! current-thread tokio runtime with the clock paused.  The harness plays the part of `SystemTask::run`'s
//! event loop: it feeds every `SpawnEvent` to `handle_spawn_event` (real sources are created) and sends
//! scripted `MsgForSystem::{MustDemobilize, NetworkIssue, Unreachable}` for live sources through
//! `handle_source_update`, then lets 2.5 s of (virtual) time pass.  A recording wrapper around each
//! spawner logs the `SourceRemovedEvent` reason it receives.
//!
//! Op lines (model input)                         observation
//!   cfg spawners=<s|pN,..>                       spawns=<idx:count,..>        (initial sources per spawner)
//!   msg kind=<D|N|U> src=<id>                    to=<idx> reason=<D|N|U> spawns=<idx:count,..|->
//!   noop                                         ok                            (no live source left)
//! (the generator writes `msg kind=.. nth=<k>`: k-th live source; the executor logs the resolved form.)
//! Source ids are `ClockId`s renumbered in order of registration.
//!
//! Oracle `c36_demobilize_reason` (the property, no model): a `MustDemobilize` reaches the owning spawner
//! as `Demobilized` (and NetworkIssue / Unreachable unchanged); a standard spawner whose source was
//! demobilised never emits another SpawnEvent.
#![allow(clippy::all, clippy::pedantic)]

#[path = "../common/mod.rs"]
mod common;

use super::super::*;
use crate::daemon::config::{NormalizedAddress, PoolSourceConfig, StandardSource};
use crate::daemon::spawn::SourceRemovedEvent;
use common::{kv, Rng, Run};
use ntp_proto::{
    AlgorithmConfig, KalmanClockController, KeySetProvider, NtpDuration, NtpLeapIndicator, NtpTimestamp,
    ProtocolVersion, TimeSyncControllerWrapper,
};
use std::net::SocketAddr;
use std::time::Duration;

#[derive(Debug, Clone, Default)]
struct HClock;
impl NtpClock for HClock {
    type Error = std::time::SystemTimeError;
    fn now(&self) -> Result<NtpTimestamp, Self::Error> {
        let cur = std::time::SystemTime::now().duration_since(std::time::SystemTime::UNIX_EPOCH)?;
        Ok(NtpTimestamp::from_seconds_nanos_since_ntp_era(
            crate::daemon::util::EPOCH_OFFSET.wrapping_add(cur.as_secs() as u32),
            cur.subsec_nanos(),
        ))
    }
    fn set_frequency(&self, _: f64) -> Result<NtpTimestamp, Self::Error> {
        self.now()
    }
    fn get_frequency(&self) -> Result<f64, Self::Error> {
        Ok(0.0)
    }
    fn step_clock(&self, _: NtpDuration) -> Result<NtpTimestamp, Self::Error> {
        self.now()
    }
    fn disable_ntp_algorithm(&self) -> Result<(), Self::Error> {
        Ok(())
    }
    fn error_estimate_update(&self, _: NtpDuration, _: NtpDuration) -> Result<(), Self::Error> {
        Ok(())
    }
    fn status_update(&self, _: NtpLeapIndicator) -> Result<(), Self::Error> {
        Ok(())
    }
}

type HController = TimeSyncControllerWrapper<KalmanClockController<HClock>>;

type RemovalLog = Arc<Mutex<Vec<(usize, char)>>>;

/// recording wrapper: logs the removal reason the spawner is handed, delegates everything
struct Rec<S> {
    inner: S,
    idx: usize,
    log: RemovalLog,
}

impl<S: Spawner + Send + Sync> Spawner for Rec<S> {
    type Error = S::Error;

    async fn try_spawn(&mut self, action_tx: &mpsc::Sender<SpawnEvent>) -> Result<(), S::Error> {
        self.inner.try_spawn(action_tx).await
    }
    fn is_complete(&self) -> bool {
        self.inner.is_complete()
    }
    async fn handle_source_removed(&mut self, event: SourceRemovedEvent) -> Result<(), S::Error> {
        let r = match event.reason {
            SourceRemovalReason::Demobilized => 'D',
            SourceRemovalReason::NetworkIssue => 'N',
            SourceRemovalReason::Unreachable => 'U',
        };
        self.log.lock().unwrap().push((self.idx, r));
        self.inner.handle_source_removed(event).await
    }
    async fn handle_registered(&mut self, event: SourceCreateParameters) -> Result<(), S::Error> {
        self.inner.handle_registered(event).await
    }
    fn get_id(&self) -> SpawnerId {
        self.inner.get_id()
    }
    fn get_addr_description(&self) -> String {
        self.inner.get_addr_description()
    }
    fn get_description(&self) -> &'static str {
        self.inner.get_description()
    }
}

#[derive(Clone, Copy, PartialEq, Debug)]
enum Kind {
    Std,
    Pool(usize),
}

fn parse_spawners(s: &str) -> Vec<Kind> {
    s.split(',')
        .map(|w| if w == "s" { Kind::Std } else { Kind::Pool(w[1..].parse().expect("pool count")) })
        .collect()
}

fn show_counts(c: &[usize]) -> String {
    let v: Vec<String> = c.iter().enumerate().filter(|(_, n)| **n > 0).map(|(i, n)| format!("{}:{}", i, n)).collect();
    if v.is_empty() {
        "-".to_string()
    } else {
        v.join(",")
    }
}

struct Live {
    id: usize,
    clock_id: ClockId,
    owner: usize,
}

struct World {
    system: SystemTask<HClock, HController>,
    kinds: Vec<Kind>,
    spawner_ids: Vec<SpawnerId>,
    log: RemovalLog,
    live: Vec<Live>,
    next_id: usize,
    /// standard spawners whose source was demobilised (they must stay silent)
    demobilised: Vec<bool>,
}

impl World {
    /// let 2.5 s pass, then register everything the spawners asked for; returns spawn counts per spawner
    async fn settle(&mut self, run: &mut Run) -> Vec<usize> {
        tokio::time::sleep(Duration::from_millis(2500)).await;
        let mut counts = vec![0usize; self.kinds.len()];
        while let Ok(event) = self.system.spawn_rx.try_recv() {
            let owner = self.spawner_ids.iter().position(|i| *i == event.id).expect("known spawner");
            let SpawnAction::Create(params) = &event.action;
            let clock_id = params.get_id();
            if self.kinds[owner] == Kind::Std && self.demobilised[owner] {
                run.oracle_fail(
                    "c36_demobilize_reason",
                    "what=respawn",
                    &format!("standard spawner {} emitted a SpawnEvent for {} after its source was demobilised", owner, params.get_addr()),
                );
            }
            self.system.handle_spawn_event(event).await.expect("create source");
            self.live.push(Live { id: self.next_id, clock_id, owner });
            self.next_id += 1;
            counts[owner] += 1;
        }
        counts
    }
}

fn corpus(idx: u64) -> Option<Vec<String>> {
    let v: Vec<&str> = match idx {
        // the only source of the daemon is demobilised (a standard spawner must stay silent for good)
        0 => vec!["cfg spawners=s", "msg kind=D nth=0", "noop"],
        // two standard spawners: the second demobilisation empties the system
        1 => vec!["cfg spawners=s,s", "msg kind=D nth=1", "msg kind=D nth=0", "noop"],
        // network issue / unreachable respawn, then demobilise the last one
        2 => vec!["cfg spawners=s", "msg kind=N nth=0", "msg kind=U nth=0", "msg kind=D nth=0"],
        // pool next to a standard spawner: pool refills whatever the reason
        3 => vec!["cfg spawners=p2,s", "msg kind=D nth=0", "msg kind=D nth=2", "msg kind=N nth=0", "msg kind=D nth=1"],
        _ => return None,
    };
    Some(v.into_iter().map(String::from).collect())
}

fn gen_sys_case(rng: &mut Rng, idx: u64, _run: &Run) -> Vec<String> {
    if let Some(c) = corpus(idx) {
        return c;
    }
    let n = rng.usize(1, 3);
    let spawners: Vec<String> = (0..n)
        .map(|_| if rng.chance(2, 3) { "s".to_string() } else { format!("p{}", rng.usize(1, 2)) })
        .collect();
    let mut ops = vec![format!("cfg spawners={}", spawners.join(","))];
    let p_d = *rng.pick(&[30u64, 50, 70]);
    for _ in 0..rng.usize(1, 6) {
        let kind = if rng.below(100) < p_d { "D" } else if rng.chance(1, 2) { "N" } else { "U" };
        ops.push(format!("msg kind={} nth={}", kind, rng.below(4)));
    }
    ops
}

fn exec_sys_case(ops: &[String], run: &mut Run) {
    let rt = tokio::runtime::Builder::new_current_thread()
        .enable_all()
        .start_paused(true)
        .build()
        .expect("tokio runtime");
    rt.block_on(async {
        let mut world: Option<World> = None;
        let mut key = String::new();
        let mut demobilised_last = false;
        for op in ops {
            run.begin_op(op);
            let w: Vec<&str> = op.split_whitespace().collect();
            match w.as_slice() {
                ["cfg", rest @ ..] => {
                    let kinds = parse_spawners(kv(rest, "spawners").expect("spawners"));
                    let (_keyset_tx, keyset) = tokio::sync::watch::channel(KeySetProvider::new(1).get());
                    let (_ip_tx, ip_list) = tokio::sync::watch::channel::<Arc<[IpAddr]>>(Arc::new([]));
                    let (mut system, _channels) = SystemTask::<HClock, HController>::new(
                        HClock,
                        None,
                        TimestampMode::Software,
                        SynchronizationConfig::default(),
                        AlgorithmConfig::default(),
                        &keyset,
                        ip_list,
                        false,
                        #[cfg(target_os = "linux")]
                        CsptpConfig::default(),
                    );
                    // keep the watch senders alive for the whole case
                    std::mem::forget(_keyset_tx);
                    std::mem::forget(_ip_tx);
                    let log: RemovalLog = Arc::new(Mutex::new(vec![]));
                    let mut spawner_ids = vec![];
                    for (i, k) in kinds.iter().enumerate() {
                        let addrs: Vec<SocketAddr> =
                            (1..=4u8).map(|j| SocketAddr::from(([127, 0, 10 + i as u8, j], 123))).collect();
                        let id = match k {
                            Kind::Std => system.add_spawner(Rec {
                                inner: StandardSpawner::new(
                                    StandardSource {
                                        address: NormalizedAddress::with_hardcoded_dns("std.verif", 123, addrs).into(),
                                        ntp_version: ProtocolVersion::V4,
                                    },
                                    SourceConfig::default(),
                                ),
                                idx: i,
                                log: log.clone(),
                            }),
                            Kind::Pool(c) => system.add_spawner(Rec {
                                inner: PoolSpawner::new(
                                    PoolSourceConfig {
                                        addr: NormalizedAddress::with_hardcoded_dns("pool.verif", 123, addrs).into(),
                                        count: *c,
                                        ignore: vec![],
                                        ntp_version: ProtocolVersion::V4,
                                    },
                                    SourceConfig::default(),
                                ),
                                idx: i,
                                log: log.clone(),
                            }),
                        };
                        spawner_ids.push(id);
                    }
                    let n = kinds.len();
                    let mut wd = World { system, kinds, spawner_ids, log, live: vec![], next_id: 0, demobilised: vec![false; n] };
                    let counts = wd.settle(run).await;
                    world = Some(wd);
                    run.end_op(&format!("spawns={}", show_counts(&counts)));
                }
                ["noop"] => {
                    // time passes, nothing may happen
                    let wd = world.as_mut().expect("cfg first");
                    let counts = wd.settle(run).await;
                    run.end_op(if counts.iter().all(|c| *c == 0) { "ok" } else { "spawned" });
                }
                ["msg", rest @ ..] => {
                    let wd = world.as_mut().expect("cfg first");
                    let kind = kv(rest, "kind").and_then(|k| k.chars().next()).expect("kind");
                    let pos = if let Some(nth) = kv(rest, "nth") {
                        if wd.live.is_empty() {
                            None
                        } else {
                            Some(nth.parse::<usize>().expect("nth") % wd.live.len())
                        }
                    } else {
                        let id: usize = kv(rest, "src").and_then(|s| s.parse().ok()).expect("src");
                        wd.live.iter().position(|l| l.id == id)
                    };
                    let Some(pos) = pos else {
                        // no such live source: the real system would panic on an unknown id; not a case
                        let counts = wd.settle(run).await;
                        run.end_op_as("noop", if counts.iter().all(|c| *c == 0) { "ok" } else { "spawned" });
                        continue;
                    };
                    let src = wd.live.remove(pos);
                    let resolved = format!("msg kind={} src={}", kind, src.id);
                    let msg = match kind {
                        'D' => MsgForSystem::MustDemobilize(src.clock_id),
                        'U' => MsgForSystem::Unreachable(src.clock_id),
                        _ => MsgForSystem::NetworkIssue(src.clock_id),
                    };
                    let last = wd.live.is_empty();
                    wd.log.lock().unwrap().clear();
                    wd.system.handle_source_update(msg).await.expect("handle_source_update");
                    // the spawner task handles the notification as soon as it runs
                    tokio::task::yield_now().await;
                    tokio::time::sleep(Duration::from_millis(1)).await;
                    let got = wd.log.lock().unwrap().clone();
                    let (to, reason) = match got.as_slice() {
                        [(to, r)] => (*to as i64, *r),
                        [] => (-1, '-'),
                        _ => (-2, '?'),
                    };
                    // ---- the property ----
                    if to != src.owner as i64 || reason != kind {
                        run.oracle_fail(
                            "c36_demobilize_reason",
                            &format!("what=reason sent={} got={} last_source={}", kind, reason, last as u8),
                            &format!(
                                "source {} of spawner {} reported {} to the system (it was {}the last source); spawner {} was told {}",
                                src.id,
                                src.owner,
                                kind,
                                if last { "" } else { "not " },
                                to,
                                reason
                            ),
                        );
                    }
                    if kind == 'D' && wd.kinds[src.owner] == Kind::Std {
                        wd.demobilised[src.owner] = true;
                    }
                    let counts = wd.settle(run).await;
                    run.hit(&format!("msg-{}-{}", kind, if wd.kinds[src.owner] == Kind::Std { "std" } else { "pool" }));
                    if last {
                        run.hit(&format!("msg-{}-for-last-source", kind));
                        if kind == 'D' {
                            demobilised_last = true;
                        }
                    }
                    key.push(kind);
                    key.push(if wd.kinds[src.owner] == Kind::Std { 's' } else { 'p' });
                    if last {
                        key.push('!');
                    }
                    run.end_op_as(&resolved, &format!("to={} reason={} spawns={}", to, reason, show_counts(&counts)));
                }
                _ => run.end_op("bad-op"),
            }
        }
        if demobilised_last || key.len() >= 4 {
            run.nontrivial(&format!("{}|{}", ops.first().map(String::as_str).unwrap_or(""), key));
        }
    });
}

#[test]
fn entry() {
    let stream = std::env::var("VERIF_STREAM").unwrap_or_default();
    match stream.as_str() {
        "c36_system" => common::drive(
            "c36_system",
            "real SystemTask with 1-3 real spawners (StandardSpawner / PoolSpawner count 1-2, hard-coded DNS, loop-back) in the real spawner_task under a paused tokio clock; 1-6 MsgForSystem (MustDemobilize / NetworkIssue / Unreachable) for the k-th live source, 2.5 s virtual time after each; observed: removal reason handed to the owning spawner and SpawnEvents per spawner; non-trivial = the last live source was demobilised, or at least two messages; distinct by spawner set + message/owner/last-source signature",
            gen_sys_case,
            exec_sys_case,
        ),
        other => panic!("unknown VERIF_STREAM {:?}", other),
    }
}
