//! verification harness module included into `ntpd/src/daemon/config/server.rs` (guarded hook).
