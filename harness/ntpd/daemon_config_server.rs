//! verification harness dispatcher for hook `verif_daemon_config_server` of crate `ntpd` (guarded hook).
//! Add one line per property cluster:   #[path = "daemon_config_server_<cluster>.rs"] mod <cluster>;
//! Each sub-module has its own `#[test] fn entry()` selected by VERIF_STREAM and reaches the private
//! items of the module the hook sits in through `super::super::*`.

#[path = "daemon_config_server_filt.rs"]
mod filt;
