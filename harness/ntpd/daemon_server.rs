//! verification harness module included into `ntpd/src/daemon/server.rs` (guarded hook).
