//! verification harness module included into `ntpd/src/daemon/observer.rs` (guarded hook), property C38.
//!
//! Stream c38_state (oracle only, no model: serde / serde_json are external): whole `ObservableState`s
//! (0-20 sources, 0-4 servers, every numeric field at boundary values and random bit patterns, finite floats
//! only) are written with the REAL `write_json` into a tokio duplex pipe of small capacity and read back with
//! the REAL `read_json::<ObservableState>` exactly as ntp-ctl and the metrics exporter do; every field is
//! compared: equal, durations within 1e-9 relative + one 2^-32 s unit.
#![allow(clippy::all, clippy::pedantic)]

#[path = "../common/mod.rs"]
mod common;

use super::super::*;
use crate::daemon::sockets::{read_json, write_json};
use common::{kv, Rng, Run};
use ntp_proto::{
    NtpDuration, NtpLeapIndicator, NtpSnapshot, ObservableSourceTimedata, PollInterval, ReferenceId, TimeSnapshot,
};

fn ts_raw(t: NtpTimestamp) -> u64 {
    serde_json::to_value(t).unwrap()["timestamp"].as_u64().unwrap()
}
fn ts_from_raw(raw: u64) -> NtpTimestamp {
    serde_json::from_value(serde_json::json!({ "timestamp": raw })).unwrap()
}
fn dur_raw(d: NtpDuration) -> i64 {
    0u64.wrapping_sub(ts_raw(ts_from_raw(0) - d)) as i64
}
fn dur_from_raw(raw: i64) -> NtpDuration {
    ts_from_raw(raw as u64) - ts_from_raw(0)
}

fn g_u64(rng: &mut Rng) -> u64 {
    match rng.below(4) {
        0 => *rng.pick(&[0u64, 1, u64::MAX, i64::MAX as u64, i64::MAX as u64 + 1, (1 << 53) + 1, u32::MAX as u64]),
        _ => rng.next_u64() >> rng.below(64),
    }
}
fn g_f64(rng: &mut Rng) -> f64 {
    let f = match rng.below(5) {
        0 => *rng.pick(&[0.0, -0.0, 1.0, f64::MAX, f64::MIN, f64::MIN_POSITIVE, 5e-324, 0.1, 1e-9, 1.0715660391465826e-75]),
        1 => rng.f64_unit() * 1e-6,
        2 => rng.f64_unit() * 1e5,
        _ => f64::from_bits(rng.next_u64()),
    };
    if f.is_finite() { f } else { 0.125 }
}
fn g_dur(rng: &mut Rng) -> NtpDuration {
    dur_from_raw(match rng.below(5) {
        0 => *rng.pick(&[0i64, 1, -1, i64::MAX, i64::MIN, 1 << 32, (1 << 32) - 1, -(1 << 32), 4294967295]),
        1 => rng.range(-5_000_000, 5_000_000),
        2 => rng.range(-(1 << 42), 1 << 42),
        _ => rng.next_u64() as i64 >> rng.below(64),
    })
}
fn g_str(rng: &mut Rng) -> String {
    let n = rng.usize(0, 24);
    (0..n).map(|_| *rng.pick(&['a', 'b', '1', '.', ':', '[', ']', ' ', '"', '\\', '\n', 'ü', '\u{1F552}', '\u{7f}', '\0'])).collect()
}

fn gen_state(seed: u64, nsrc: usize, nsrv: usize) -> ObservableState {
    let mut r = Rng::new(seed);
    let rng = &mut r;
    let leap = match rng.below(5) {
        0 => NtpLeapIndicator::NoWarning,
        1 => NtpLeapIndicator::Leap61,
        2 => NtpLeapIndicator::Leap59,
        3 => NtpLeapIndicator::Unknown,
        _ => NtpLeapIndicator::Unsynchronized,
    };
    let system = SystemSnapshot {
        time_snapshot: TimeSnapshot {
            precision: g_dur(rng),
            root_delay: g_dur(rng),
            root_variance_base_time: ts_from_raw(g_u64(rng)),
            root_variance_base: g_f64(rng),
            root_variance_linear: g_f64(rng),
            root_variance_quadratic: g_f64(rng),
            root_variance_cubic: g_f64(rng),
            leap_indicator: leap,
            accumulated_steps: g_dur(rng),
            accumulated_steps_threshold: if rng.chance(1, 2) { Some(g_dur(rng)) } else { None },
        },
        ntp_snapshot: NtpSnapshot {
            stratum: g_u64(rng) as u8,
            reference_id: serde_json::from_value::<ReferenceId>(serde_json::json!(g_u64(rng) as u32)).unwrap(),
            bloom_filter: ntp_proto::v5::BloomFilter::new(),
        },
    };
    let sources = (0..nsrc)
        .map(|_| ObservableSourceState {
            timedata: ObservableSourceTimedata {
                offset: g_dur(rng),
                uncertainty: g_dur(rng),
                delay: g_dur(rng),
                remote_delay: g_dur(rng),
                remote_uncertainty: g_dur(rng),
                last_update: ts_from_raw(g_u64(rng)),
            },
            unanswered_polls: g_u64(rng) as u32,
            poll_interval: PollInterval::from_byte(g_u64(rng) as u8),
            nts_cookies: if rng.chance(1, 2) { Some(g_u64(rng) as usize) } else { None },
            name: g_str(rng),
            address: g_str(rng),
            id: serde_json::from_value::<ClockId>(serde_json::json!(g_u64(rng))).unwrap(),
        })
        .collect();
    let servers = (0..nsrv)
        .map(|_| {
            let counters: Vec<u64> = (0..11).map(|_| g_u64(rng)).collect();
            let stats: ServerStats = serde_json::from_value(serde_json::json!({
                "received_packets": counters[0], "accepted_packets": counters[1], "denied_packets": counters[2],
                "ignored_packets": counters[3], "rate_limited_packets": counters[4], "response_send_errors": counters[5],
                "nts_received_packets": counters[6], "nts_accepted_packets": counters[7], "nts_denied_packets": counters[8],
                "nts_rate_limited_packets": counters[9], "nts_nak_packets": counters[10]
            }))
            .unwrap();
            let address: SocketAddr = if rng.chance(1, 2) {
                SocketAddr::from(([rng.next_u64() as u8, 0, 2, 1], rng.next_u64() as u16))
            } else {
                SocketAddr::from((std::net::Ipv6Addr::from((rng.next_u64() as u128) << 64 | rng.next_u64() as u128), rng.next_u64() as u16))
            };
            ObservableServerState { address, stats }
        })
        .collect();
    ObservableState {
        program: ProgramData::with_dynamics(g_f64(rng).abs(), ts_from_raw(g_u64(rng))),
        system,
        sources,
        servers,
    }
}

/// every field of a state as (path, kind, exact value); kind d = duration (raw i64), x = everything else
fn fields(s: &ObservableState) -> Vec<(String, char, String)> {
    let mut v: Vec<(String, char, String)> = vec![];
    let mut x = |p: String, val: String| v.push((p, 'x', val));
    x("program.version".into(), s.program.version.clone());
    x("program.build_commit".into(), s.program.build_commit.clone());
    x("program.build_commit_date".into(), s.program.build_commit_date.clone());
    x("program.uptime_seconds".into(), format!("{:016x}", s.program.uptime_seconds.to_bits()));
    x("program.now".into(), ts_raw(s.program.now).to_string());
    let t = &s.system.time_snapshot;
    x("system.root_variance_base_time".into(), ts_raw(t.root_variance_base_time).to_string());
    x("system.root_variance_base".into(), format!("{:016x}", t.root_variance_base.to_bits()));
    x("system.root_variance_linear".into(), format!("{:016x}", t.root_variance_linear.to_bits()));
    x("system.root_variance_quadratic".into(), format!("{:016x}", t.root_variance_quadratic.to_bits()));
    x("system.root_variance_cubic".into(), format!("{:016x}", t.root_variance_cubic.to_bits()));
    x("system.leap_indicator".into(), format!("{:?}", t.leap_indicator));
    x("system.accumulated_steps_threshold.is_some".into(), t.accumulated_steps_threshold.is_some().to_string());
    x("system.stratum".into(), s.system.ntp_snapshot.stratum.to_string());
    x("system.reference_id".into(), format!("{:?}", s.system.ntp_snapshot.reference_id));
    x("sources.len".into(), s.sources.len().to_string());
    x("servers.len".into(), s.servers.len().to_string());
    for (i, src) in s.sources.iter().enumerate() {
        x(format!("sources[{}].last_update", i), ts_raw(src.timedata.last_update).to_string());
        x(format!("sources[{}].unanswered_polls", i), src.unanswered_polls.to_string());
        x(format!("sources[{}].poll_interval", i), src.poll_interval.as_byte().to_string());
        x(format!("sources[{}].nts_cookies", i), format!("{:?}", src.nts_cookies));
        x(format!("sources[{}].name", i), src.name.clone());
        x(format!("sources[{}].address", i), src.address.clone());
        x(format!("sources[{}].id", i), src.id.to_string());
    }
    for (i, srv) in s.servers.iter().enumerate() {
        x(format!("servers[{}].address", i), srv.address.to_string());
        let st = &srv.stats;
        let c = [
            st.received_packets.get(), st.accepted_packets.get(), st.denied_packets.get(), st.ignored_packets.get(),
            st.rate_limited_packets.get(), st.response_send_errors.get(), st.nts_received_packets.get(),
            st.nts_accepted_packets.get(), st.nts_denied_packets.get(), st.nts_rate_limited_packets.get(), st.nts_nak_packets.get(),
        ];
        x(format!("servers[{}].stats", i), format!("{:?}", c));
    }
    let mut d = |p: String, val: NtpDuration| v.push((p, 'd', dur_raw(val).to_string()));
    d("system.precision".into(), t.precision);
    d("system.root_delay".into(), t.root_delay);
    d("system.accumulated_steps".into(), t.accumulated_steps);
    if let Some(th) = t.accumulated_steps_threshold {
        d("system.accumulated_steps_threshold".into(), th);
    }
    for (i, src) in s.sources.iter().enumerate() {
        d(format!("sources[{}].offset", i), src.timedata.offset);
        d(format!("sources[{}].uncertainty", i), src.timedata.uncertainty);
        d(format!("sources[{}].delay", i), src.timedata.delay);
        d(format!("sources[{}].remote_delay", i), src.timedata.remote_delay);
        d(format!("sources[{}].remote_uncertainty", i), src.timedata.remote_uncertainty);
    }
    v
}

fn gen_case(rng: &mut Rng, idx: u64, _run: &Run) -> Vec<String> {
    let _ = idx;
    // a case is a SEQUENCE of 1-5 snapshots read back through one connection with one reused buffer; the number
    // of sources goes up and down between snapshots (sources appear and are removed), so longer and shorter
    // messages follow each other
    let n = match rng.below(8) {
        0 => 1,
        _ => rng.usize(2, 5),
    };
    let cap = *rng.pick(&[1usize, 7, 8, 9, 100, 65536]);
    let mut nsrc = match rng.below(4) {
        0 => 20,
        1 => 0,
        _ => rng.usize(1, 8),
    };
    let nsrv = rng.usize(0, 4);
    (0..n)
        .map(|_| {
            let line = format!("state seed={} nsrc={} nsrv={} cap={}", rng.next_u64(), nsrc, nsrv, cap);
            nsrc = match rng.below(5) {
                0 => 0,
                1 => nsrc / 2,
                2 => nsrc.saturating_sub(1),
                3 => (nsrc + rng.usize(1, 6)).min(20),
                _ => rng.usize(0, 8),
            };
            line
        })
        .collect()
}

fn exec_case(ops: &[String], run: &mut Run) {
    let rt = tokio::runtime::Builder::new_current_thread().enable_all().build().unwrap();
    // parse the whole case first: all its snapshots go through ONE pipe and are read with ONE reused buffer
    let mut parsed: Vec<Option<(u64, usize, usize, usize)>> = vec![];
    for op in ops {
        let w: Vec<&str> = op.split_whitespace().collect();
        let p = |k: &str| kv(&w, k).and_then(|s| s.parse::<u64>().ok());
        parsed.push(match (w.first(), p("seed"), p("nsrc"), p("nsrv"), p("cap")) {
            (Some(&"state"), Some(a), Some(b), Some(c), Some(d)) if b <= 64 && c <= 16 && d >= 1 => Some((a, b as usize, c as usize, d as usize)),
            _ => None,
        });
    }
    let states: Vec<ObservableState> = parsed.iter().flatten().map(|(seed, nsrc, nsrv, _)| gen_state(*seed, *nsrc, *nsrv)).collect();
    let cap = parsed.iter().flatten().map(|t| t.3).next().unwrap_or(64);
    let mut results: std::collections::VecDeque<std::io::Result<ObservableState>> = rt.block_on(async {
        let (mut a, b) = tokio::io::duplex(cap);
        let n = states.len();
        // the reading end is dropped when the reader returns, so a blocked writer fails instead of hanging
        let reader = async move {
            let mut b = b;
            let mut buffer = Vec::new();
            let mut out = std::collections::VecDeque::new();
            for _ in 0..n {
                let r = read_json::<ObservableState>(&mut b, &mut buffer).await;
                // after a truncated stream nothing more can be read; a rejected payload leaves the stream in step
                let stop = matches!(&r, Err(e) if e.kind() == std::io::ErrorKind::UnexpectedEof || e.to_string() == "message too large");
                out.push_back(r);
                if stop {
                    break;
                }
            }
            out
        };
        let writer = async {
            for s in &states {
                if write_json(&mut a, s).await.is_err() {
                    break;
                }
            }
        };
        let (_, out) = tokio::join!(writer, reader);
        out
    });
    let mut states = std::collections::VecDeque::from(states);
    for (k, op) in ops.iter().enumerate() {
        run.begin_op(op);
        let Some((seed, _nsrc, _nsrv, _cap)) = parsed[k] else {
            run.end_op("bad-op");
            continue;
        };
        let state = states.pop_front().expect("one state per parsed op");
        let back = results.pop_front().unwrap_or_else(|| Err(std::io::Error::other("not read: the connection failed on an earlier snapshot")));
        match back {
            Err(e) => {
                run.oracle_fail("state_read_back", &format!("pos={}", k.min(4)), &format!("snapshot {} of {} in this connection could not be read back with the reused buffer: {}", k + 1, ops.len(), e));
                run.end_op("err");
            }
            Ok(back) => {
                let (fa, fb) = (fields(&state), fields(&back));
                let mut bad = 0;
                let mut inexact = 0;
                if fa.len() != fb.len() {
                    run.oracle_fail("state_read_back", "", &format!("{} fields written, {} read", fa.len(), fb.len()));
                    bad += 1;
                }
                for ((pa, ka, va), (_pb, _kb, vb)) in fa.iter().zip(fb.iter()) {
                    if *ka == 'd' {
                        let (x, y): (i128, i128) = (va.parse().unwrap(), vb.parse().unwrap());
                        let bound = x.abs() / 1_000_000_000 + 1;
                        if (x - y).abs() > bound {
                            // F-C38b: a negative sub-second duration comes back exactly 2 units low
                            let attrs = if x < 0 && x > -1_000_000_000 && y == x - 2 { "excess=neg-subsecond-2units".to_string() } else { format!("excess=other field={}", pa) };
                            run.oracle_fail("duration_bound", &attrs, &format!("{} written as {} read as {}", pa, va, vb));
                            bad += 1;
                        } else if x != y {
                            inexact += 1;
                        }
                    } else if va != vb {
                        let kind = if pa.contains("variance") || pa.contains("uptime") { "f64_equal" } else { "field_equal" };
                        run.oracle_fail(kind, &format!("field={}", pa.split('[').next().unwrap_or(pa)), &format!("{} written as {:?} read as {:?}", pa, va, vb));
                        bad += 1;
                    }
                }
                run.hit(if bad > 0 { "state-differs" } else if inexact > 0 { "state-equal-durations-within-bound" } else { "state-equal" });
                run.nontrivial(&format!("{}", seed));
                run.end_op(&format!("ok fields={} bad={}", fa.len(), bad));
            }
        }
    }
}

#[test]
fn entry() {
    let stream = std::env::var("VERIF_STREAM").unwrap_or_default();
    match stream.as_str() {
        "c38_state" => common::drive(
            "c38_state",
            "ObservableState (0/1-8/20 sources, 0-4 servers; u64/timestamps/counters at 0, 2^53+1, i64/u64 limits and random; finite f64 special and random bit patterns; durations raw 0, +-1, limits, 2^32 neighbours, random; strings with quotes, escapes, NUL, non-ASCII) ; each case is a sequence of 1-5 snapshots whose number of sources goes up and down, all written with write_json into one duplex pipe (cap 1..65536) and all read back with read_json::<ObservableState> into ONE reused buffer; field-wise comparison of every snapshot; distinct by seed",
            gen_case,
            exec_case,
        ),
        other => panic!("unknown VERIF_STREAM {:?}", other),
    }
}
