//! verification harness module included into `ntpd/src/daemon/nts_key_provider.rs` (guarded hook).
