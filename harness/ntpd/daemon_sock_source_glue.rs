//! verification harness module included into `ntpd/src/daemon/sock_source.rs` (guarded hook), property C40.
//! Grandchild of `crate::daemon::sock_source`, so it sees `deserialize_sample`, `SockSample`,
//! `SampleError`, `SOCK_MAGIC`, `SOCK_SAMPLE_SIZE` and the private fields of `SockSourceTask`.
//!
//! Streams (selected with VERIF_STREAM):
//!   c40_deser  — `deserialize_sample(result, buf)` called directly, followed (for accepted samples) by the
//!                `NtpDuration::from_seconds(sample.offset)` the run loop performs next
//!   c40_socket — the REAL `SockSourceTask::run` loop on a real `UnixDatagram` pair with a scripted clock and
//!                a recording `SourceController`: datagrams of length 0..=64 are sent, the measurement handed
//!                to the controller (or its absence) is the observation
#![allow(clippy::all, clippy::pedantic)]

#[path = "../common/mod.rs"]
mod common;

use super::super::*;
use common::{f64hex, hex, kv, unhex, Rng, Run};
use ntp_proto::{NtpTimestamp, ObservableSourceTimedata, PollInterval};
use std::collections::HashMap;
use std::sync::atomic::{AtomicU64, Ordering};
use std::sync::{Arc, Mutex, RwLock};

const MAGIC: i32 = 0x534f434b;

/// raw bits of an `NtpTimestamp` (it derives `Serialize` as `{"timestamp": u64}`)
fn ts_raw(t: NtpTimestamp) -> u64 {
    serde_json::to_value(t).unwrap()["timestamp"].as_u64().unwrap()
}

fn ts_from_raw(raw: u64) -> NtpTimestamp {
    serde_json::from_value(serde_json::json!({ "timestamp": raw })).unwrap()
}

/// raw i64 of an `NtpDuration`: `0 - d` on timestamps is `0u64.wrapping_sub(d as u64)`
fn dur_raw(d: NtpDuration) -> i64 {
    0u64.wrapping_sub(ts_raw(ts_from_raw(0) - d)) as i64
}

fn interesting_offset_bits(rng: &mut Rng) -> u64 {
    const S: &[u64] = &[
        0x0000000000000000, 0x8000000000000000, 0x0000000000000001, 0x8000000000000001,
        0x000fffffffffffff, 0x0010000000000000, 0x3ff0000000000000, 0xbff0000000000000,
        0x7fefffffffffffff, 0xffefffffffffffff, // largest finite
        0x7ff0000000000000, 0xfff0000000000000, // +-inf
        0x7ff8000000000000, 0xfff8000000000000, // quiet NaN
        0x7ff0000000000001, 0xfff0000000000001, 0x7ff4000000000000, // signalling NaN
        0x7fffffffffffffff, 0xffffffffffffffff,
        0x41dfffffffc00000, 0x41e0000000000000, 0xc1e0000000000000, 0xc1e0000000200000, // i32 limits
        0x41dfffffffffffff, 0x43e0000000000000, 0xc3e0000000000000, // 2^31 - eps, +-2^63
        0x3fefffffffffffff, 0xbfefffffffffffff, 0x3df0000000000000, 0xbdf0000000000000, // just below 1, 2^-32
        0x411377fed1b6bd7d, // the project's own test sample 318975.704798661
    ];
    match rng.below(10) {
        0..=2 => *rng.pick(S),
        3..=4 => rng.next_u64(),
        5 => {
            // around the exponent boundary of non-finite values
            let e: u64 = *rng.pick(&[0x7fe, 0x7ff, 0x7fd, 0x000, 0x001]);
            let sign = rng.below(2) << 63;
            let mant = match rng.below(3) {
                0 => 0,
                1 => 1,
                _ => rng.next_u64() & 0x000f_ffff_ffff_ffff,
            };
            sign | (e << 52) | mant
        }
        _ => {
            // plausible offsets: +-1e-9 .. 1e6 seconds
            let m = rng.f64_unit() * 2.0 - 1.0;
            let e = rng.range(-30, 32) as i32;
            (m * (2.0f64).powi(e)).to_bits()
        }
    }
}

/// a 40-byte sample, mostly valid, perturbed at the decision points
fn gen_sample(rng: &mut Rng) -> [u8; 40] {
    let mut b = [0u8; 40];
    for x in b.iter_mut().take(16) {
        *x = rng.next_u64() as u8;
    }
    b[16..24].copy_from_slice(&interesting_offset_bits(rng).to_le_bytes());
    let pulse: i32 = match rng.below(12) {
        0 => 1,
        1 => -1,
        2 => rng.next_u64() as i32,
        3 => 1 << (rng.below(32) as i32), // one bit set anywhere (a 16-bit compare would miss the high ones)
        _ => 0,
    };
    b[24..28].copy_from_slice(&pulse.to_le_bytes());
    let leap: i32 = match rng.below(8) {
        0 => 1,
        1 => 2,
        2 => 3,
        3 => -1,
        4 => rng.next_u64() as i32,
        _ => 0,
    };
    b[28..32].copy_from_slice(&leap.to_le_bytes());
    for x in b.iter_mut().take(36).skip(32) {
        *x = rng.next_u64() as u8;
    }
    let magic: i32 = match rng.below(14) {
        0 => MAGIC ^ (1 << (rng.below(32) as i32)), // one bit off
        1 => rng.next_u64() as i32,
        2 => MAGIC.swap_bytes(),
        3 => 0,
        // wrong magics that are not text: high bytes, lone UTF-8 lead / continuation bytes (whatever renders
        // the magic when the rejection is logged must cope with them)
        4 | 5 => {
            let mut m = [b'S', b'O', b'C', b'K'];
            let n = rng.usize(1, 4);
            for _ in 0..n {
                let i = rng.usize(0, 3);
                m[i] = *rng.pick(&[0xffu8, 0xfe, 0x80, 0xc3, 0xc0, 0xe2, 0xf0, 0xbf, 0x00, 0x7f]);
            }
            i32::from_be_bytes(m)
        }
        _ => MAGIC,
    };
    b[36..40].copy_from_slice(&magic.to_le_bytes());
    b
}

fn sample_with_offset(bits: u64) -> [u8; 40] {
    let mut b = [0u8; 40];
    b[16..24].copy_from_slice(&bits.to_le_bytes());
    b[36..40].copy_from_slice(&MAGIC.to_le_bytes());
    b
}

/// the property's acceptance condition evaluated directly on the bytes (oracle side, independent of
/// both the implementation and the Lean model)
fn should_accept(size: Option<usize>, buf: &[u8]) -> bool {
    size == Some(40)
        && buf.len() >= 40
        && i32::from_le_bytes(buf[36..40].try_into().unwrap()) == MAGIC
        && i32::from_le_bytes(buf[24..28].try_into().unwrap()) == 0
        && f64::from_le_bytes(buf[16..24].try_into().unwrap()).is_finite()
}

// ---------------------------------------------------------------------------------- c40_deser

fn gen_deser_case(rng: &mut Rng, idx: u64, _run: &Run) -> Vec<String> {
    // design-time witnesses first (DESIGN §5 F-C40): NaN, +inf, -inf offsets in an otherwise valid sample
    let witness: [u64; 4] = [0x7ff8000000000000, 0x7ff0000000000000, 0xfff0000000000000, 0x7ff0000000000001];
    if (idx as usize) < witness.len() {
        return vec![format!("deser res=40 buf={}", hex(&sample_with_offset(witness[idx as usize])))];
    }
    if idx == 4 {
        // a wrong magic that is not UTF-8 (the rejection must still be printable)
        let mut b = sample_with_offset(0x3ff0000000000000);
        b[36..40].copy_from_slice(&i32::from_be_bytes([0xff, 0xfe, 0x80, 0xc3]).to_le_bytes());
        return vec![format!("deser res=40 buf={}", hex(&b))];
    }
    let n = rng.usize(1, 4);
    (0..n)
        .map(|_| {
            let buf = gen_sample(rng);
            let res = match rng.below(16) {
                0 => "ioerr".to_string(),
                1 => rng.usize(0, 64).to_string(),
                2 => "39".to_string(),
                3 => "41".to_string(),
                4 => rng.next_u64().to_string(),
                _ => "40".to_string(),
            };
            format!("deser res={} buf={}", res, hex(&buf))
        })
        .collect()
}

fn exec_deser_case(ops: &[String], run: &mut Run) {
    for op in ops {
        run.begin_op(op);
        let w: Vec<&str> = op.split_whitespace().collect();
        if w.first() != Some(&"deser") {
            run.end_op("bad-op");
            continue;
        }
        let bytes = match kv(&w, "buf").and_then(unhex) {
            Some(b) if b.len() == SOCK_SAMPLE_SIZE => b,
            _ => {
                run.end_op("bad-op");
                continue;
            }
        };
        let mut buf = [0u8; SOCK_SAMPLE_SIZE];
        buf.copy_from_slice(&bytes);
        let res_s = kv(&w, "res").unwrap_or("");
        let (result, size): (Result<usize, std::io::Error>, Option<usize>) = if res_s == "ioerr" {
            (Err(std::io::Error::from(std::io::ErrorKind::ConnectionReset)), None)
        } else {
            match res_s.parse::<usize>() {
                Ok(n) => (Ok(n), Some(n)),
                Err(_) => {
                    run.end_op("bad-op");
                    continue;
                }
            }
        };
        let want = should_accept(size, &buf);
        let offset = f64::from_le_bytes(buf[16..24].try_into().unwrap());
        match deserialize_sample(result, buf) {
            Ok(sample) => {
                if !want {
                    run.oracle_fail(
                        "accepted_only_if_valid",
                        &format!("finite={}", offset.is_finite() as u8),
                        &format!("sample accepted: size={:?} offset={:?} pulse={} magic={:#x}", size, sample.offset, sample.pulse, sample.magic),
                    );
                }
                run.hit("deser-ok");
                // what the run loop does next with an accepted sample; a panic here is caught by the
                // case guard and reported as observation `panic` + oracle clause `panic`
                let d = NtpDuration::from_seconds(sample.offset);
                run.nontrivial(&format!("{:016x}", sample.offset.to_bits() >> 44));
                run.end_op(&format!(
                    "ok off={} pulse={} leap={} magic={} dur={}",
                    f64hex(sample.offset),
                    sample.pulse,
                    sample.leap,
                    sample.magic,
                    dur_raw(d)
                ));
            }
            Err(e) => {
                if want {
                    run.oracle_fail("valid_sample_rejected", "", &format!("valid sample rejected: {}", e));
                }
                // every rejection is logged by the run loop (`error!("Error deserializing sample: {}", e)`): both
                // renderings must work for every error value
                let shown = std::panic::catch_unwind(std::panic::AssertUnwindSafe(|| (format!("{e}"), format!("{e:?}"))));
                if shown.is_err() {
                    run.oracle_fail(
                        "rejection_is_printable",
                        "",
                        &format!("formatting the rejection of this buffer panicked: size={:?} buf={}", size, hex(&buf)),
                    );
                }
                // `SampleError` has no variant of its own for every kind of rejection in every version of
                // the code, so the kind is read from the variant name
                let dbg = format!("{:?}", e);
                let kind = dbg.split(|c: char| !c.is_alphanumeric()).next().unwrap_or("?").to_string();
                let obs = match &e {
                    SampleError::IOError(_) => "err:IOError".to_string(),
                    SampleError::SliceError(_) => "err:SliceError".to_string(),
                    SampleError::WrongSize(s) => format!("err:WrongSize {}", s),
                    SampleError::WrongMagic(m) => format!("err:WrongMagic {}", m),
                    SampleError::WrongPulse(p) => format!("err:WrongPulse {}", p),
                    #[allow(unreachable_patterns)]
                    _ => format!("err:{}", kind),
                };
                run.hit(&format!("deser-{}", kind));
                run.end_op(&obs);
            }
        }
    }
}

// ---------------------------------------------------------------------------------- c40_socket

#[derive(Clone)]
struct ScriptClock(Arc<AtomicU64>);

impl NtpClock for ScriptClock {
    type Error = std::io::Error;
    fn now(&self) -> Result<NtpTimestamp, Self::Error> {
        Ok(ts_from_raw(self.0.load(Ordering::SeqCst)))
    }
    fn set_frequency(&self, _freq: f64) -> Result<NtpTimestamp, Self::Error> {
        self.now()
    }
    fn get_frequency(&self) -> Result<f64, Self::Error> {
        Ok(0.0)
    }
    fn step_clock(&self, _offset: NtpDuration) -> Result<NtpTimestamp, Self::Error> {
        self.now()
    }
    fn disable_ntp_algorithm(&self) -> Result<(), Self::Error> {
        Ok(())
    }
    fn error_estimate_update(&self, _e: NtpDuration, _m: NtpDuration) -> Result<(), Self::Error> {
        Ok(())
    }
    fn status_update(&self, _l: NtpLeapIndicator) -> Result<(), Self::Error> {
        Ok(())
    }
}

struct RecController(Arc<Mutex<Vec<Measurement>>>);

impl SourceController for RecController {
    fn handle_measurement(&mut self, m: Measurement) {
        self.0.lock().unwrap().push(m);
    }
    fn set_usable(&mut self, _usable: bool) {}
    fn desired_poll_interval(&self) -> PollInterval {
        PollInterval::default()
    }
    fn observe(&self) -> ObservableSourceTimedata {
        ObservableSourceTimedata::default()
    }
}

/// sentinel datagram: a valid sample with an offset the generator never produces
const SENTINEL_OFFSET_BITS: u64 = 0x40c81cd6c8b43958; // 12345.678
const SENTINEL_LEAP: i32 = 0x5e5e5e5e;

fn sentinel() -> [u8; 40] {
    let mut b = sample_with_offset(SENTINEL_OFFSET_BITS);
    b[28..32].copy_from_slice(&SENTINEL_LEAP.to_le_bytes());
    b
}

fn gen_socket_case(rng: &mut Rng, idx: u64, _run: &Run) -> Vec<String> {
    let time = |rng: &mut Rng| match rng.below(6) {
        0 => 0u64,
        1 => u64::MAX,
        2 => rng.below(1 << 33),
        _ => rng.next_u64(),
    };
    // witnesses first: NaN / inf offsets (F-C40), then a 41-byte datagram whose first 40 bytes are valid
    let witness: [u64; 3] = [0x7ff8000000000000, 0x7ff0000000000000, 0xfff0000000000000];
    if (idx as usize) < witness.len() {
        return vec![format!("dgram time={} bytes={}", 1u64 << 40, hex(&sample_with_offset(witness[idx as usize])))];
    }
    if idx == 3 {
        let mut v = sample_with_offset(0x3ff0000000000000).to_vec();
        v.push(0);
        return vec![format!("dgram time={} bytes={}", 1u64 << 40, hex(&v))];
    }
    if idx == 4 {
        let mut b = sample_with_offset(0x3ff0000000000000);
        b[36..40].copy_from_slice(&i32::from_be_bytes([0xff, 0xfe, 0x80, 0xc3]).to_le_bytes());
        return vec![format!("dgram time={} bytes={}", 1u64 << 40, hex(&b))];
    }
    let n = rng.usize(1, 5);
    (0..n)
        .map(|_| {
            let mut v = gen_sample(rng).to_vec();
            match rng.below(12) {
                0 => v.truncate(rng.usize(0, 39)),
                1 => v.truncate(39),
                2 => v.push(rng.next_u64() as u8),
                3 => {
                    let extra = rng.usize(1, 24);
                    v.extend(rng.bytes(extra));
                }
                4 => {
                    let n = rng.usize(0, 64);
                    v = rng.bytes(n);
                }
                _ => {}
            }
            format!("dgram time={} bytes={}", time(rng), hex(&v))
        })
        .collect()
}

/// the daemon runs with a tracing subscriber installed, so `error!(…)` in the run loop really formats its
/// arguments; without one the macro is a no-op and a panicking `Display` would go unnoticed
fn install_subscriber() {
    static ONCE: std::sync::Once = std::sync::Once::new();
    ONCE.call_once(|| {
        let _ = tracing_subscriber::fmt().with_max_level(tracing::Level::ERROR).with_writer(std::io::sink).try_init();
    });
}

fn exec_socket_case(ops: &[String], run: &mut Run) {
    install_subscriber();
    let rt = tokio::runtime::Builder::new_current_thread().enable_all().build().unwrap();
    let index = ClockId::new();
    let clock_raw = Arc::new(AtomicU64::new(0));
    let recorded: Arc<Mutex<Vec<Measurement>>> = Arc::new(Mutex::new(Vec::new()));
    let (msg_for_system_sender, _rx) = tokio::sync::mpsc::channel(1);
    let snapshots = Arc::new(RwLock::new(HashMap::new()));
    let sentinel_dur = NtpDuration::from_seconds(f64::from_bits(SENTINEL_OFFSET_BITS));
    rt.block_on(async {
        let (tx, rx) = UnixDatagram::pair().unwrap();
        let mut task = SockSourceTask {
            index,
            socket: rx,
            clock: ScriptClock(clock_raw.clone()),
            path: PathBuf::from("/verif/c40"),
            channels: SourceChannels { msg_for_system_sender, source_snapshots: snapshots.clone() },
            source: OneWaySource::new(RecController(recorded.clone())),
        };
        let driver = async {
            for op in ops {
                run.begin_op(op);
                let w: Vec<&str> = op.split_whitespace().collect();
                let bytes = match (w.first(), kv(&w, "bytes").and_then(unhex)) {
                    (Some(&"dgram"), Some(b)) if b[..] != sentinel()[..] && b.len() <= 4096 => b,
                    _ => {
                        run.end_op("bad-op");
                        continue;
                    }
                };
                let time: u64 = match kv(&w, "time").and_then(|t| t.parse().ok()) {
                    Some(t) => t,
                    None => {
                        run.end_op("bad-op");
                        continue;
                    }
                };
                clock_raw.store(time, Ordering::SeqCst);
                recorded.lock().unwrap().clear();
                tx.send(&bytes).await.expect("send datagram");
                tx.send(&sentinel()).await.expect("send sentinel");
                // datagram sockets are ordered: once the sentinel's measurement is there, the datagram
                // under test has been fully processed
                let mut spins = 0u64;
                loop {
                    {
                        let rec = recorded.lock().unwrap();
                        if let Some(last) = rec.last() {
                            if last.receiver_ts - last.sender_ts == sentinel_dur
                                && matches!(last.leap, NtpLeapIndicator::Unknown)
                            {
                                break;
                            }
                        }
                    }
                    spins += 1;
                    assert!(spins < 50_000_000, "sentinel never processed");
                    tokio::task::yield_now().await;
                }
                let rec: Vec<Measurement> = recorded.lock().unwrap().clone();
                let mine = &rec[..rec.len() - 1];
                let want = should_accept(Some(bytes.len()), &bytes);
                let len_class = if bytes.len() < 40 { "short" } else if bytes.len() == 40 { "exact" } else { "long" };
                match mine {
                    [] => {
                        run.hit(&format!("dgram-rejected-{}", len_class));
                        run.end_op("none");
                    }
                    [m] => {
                        if !want {
                            let off = if bytes.len() >= 24 { f64::from_le_bytes(bytes[16..24].try_into().unwrap()) } else { 0.0 };
                            run.oracle_fail(
                                "measurement_only_if_valid",
                                &format!("len={} finite={}", len_class, off.is_finite() as u8),
                                &format!("a {}-byte datagram became a measurement", bytes.len()),
                            );
                        }
                        let ids_ok = m.sender_id == index && m.receiver_id == ClockId::SYSTEM;
                        let leap = match m.leap {
                            NtpLeapIndicator::NoWarning => 0,
                            NtpLeapIndicator::Leap61 => 1,
                            NtpLeapIndicator::Leap59 => 2,
                            NtpLeapIndicator::Unknown => 3,
                            #[allow(unreachable_patterns)]
                            _ => 9,
                        };
                        run.hit(&format!("dgram-measurement-{}", len_class));
                        run.nontrivial(&format!("{}:{:x}", leap, dur_raw(m.receiver_ts - m.sender_ts) >> 24));
                        run.end_op(&format!(
                            "meas sender={} recv={} leap={} rootdelay={} rootdisp={} prec={} ids={}",
                            ts_raw(m.sender_ts),
                            ts_raw(m.receiver_ts),
                            leap,
                            dur_raw(m.root_delay),
                            dur_raw(m.root_dispersion),
                            m.precision,
                            ids_ok as u8
                        ));
                    }
                    more => {
                        run.oracle_fail("measurement_only_if_valid", "len=multi", &format!("one datagram produced {} measurements", more.len()));
                        run.end_op(&format!("multi {}", more.len()));
                    }
                }
            }
        };
        tokio::select! {
            _ = task.run() => panic!("run loop returned"),
            _ = driver => {}
        }
    });
}

#[test]
fn entry() {
    let stream = std::env::var("VERIF_STREAM").unwrap_or_default();
    match stream.as_str() {
        "c40_deser" => common::drive(
            "c40_deser",
            "deserialize_sample(result, buf) on 40-byte buffers: mostly valid samples perturbed in size (0..64, 39/41, io error), magic (one bit off, byte-swapped, random), pulse (one bit anywhere, +-1, random), offset (finite boundary patterns, subnormals, +-inf, quiet/signalling NaN, random bits), then from_seconds(offset) as in the run loop; non-trivial = accepted sample; distinct by the offset's top 20 bits",
            gen_deser_case,
            exec_deser_case,
        ),
        "c40_socket" => common::drive(
            "c40_socket",
            "real SockSourceTask::run on a UnixDatagram pair, scripted clock, recording controller: datagrams of 0..64 bytes (truncated, exact, 1..24 bytes too long, random); observation = measurement handed to the controller or none; non-trivial = a measurement was produced; distinct by (leap, offset>>24)",
            gen_socket_case,
            exec_socket_case,
        ),
        other => panic!("unknown VERIF_STREAM {:?}", other),
    }
}
