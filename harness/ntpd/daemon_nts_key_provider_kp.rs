//! verification harness module for C27 (keyset cluster), included into
//! `ntpd/src/daemon/nts_key_provider.rs` through the guarded hook.
//!
//! Stream c27_spawn: the REAL `nts_key_provider::spawn` is run in a temporary directory.
//!   start p=0 h=<stale_key_count> key=<fresh key, read back> (nofile=1 | b=<file bytes> [n=<prefix>] ...)
//!       -> `loaded <file the daemon then stores, time word dropped>` | `fresh <...>` | `abort`
//!      (compared with the model's `startup` followed by `store`); the oracle checks, on the real file
//!      system: a newly created file has mode 0600; a complete valid file is restored exactly; a strict
//!      prefix of one (a crash point of truncate-then-write) gives fresh keys; the loading closure never
//!      panics (the workspace builds with panic = "abort", in the test build tokio would swallow it).
//!   startfs p=0 h= umask=<022|077> layout=<plain|missing1|missing2|dir|empty|file644> [b=<file> mode=<octal>] key=<read back>
//!       -> `<loaded|fresh> fs=<created|overwritten|nofile> mode=<octal|-> dirs=<created dirs with modes|-> body=<stored file, time word dropped|->`
//!      the key-storage-path lies in an existing directory (plain), in a not-yet-existing sub-directory one or
//!      two levels deep, IS an existing directory, is an existing empty file, or an existing key file with mode
//!      0644 (the documented "warn only" case).  The daemon runs in a CHILD process (this test binary re-executed
//!      through `sh -c 'umask NNN; exec ...'`: ntpd forbids unsafe code, so umask(2) cannot be called in
//!      process) with the process umask forced to 022 and to 077.  Afterwards the harness walks the directory
//!      tree: every file the run CREATED must be rw------- (oracle clause `mode`); an existing file keeps its
//!      mode (not newly created: not judged); created directories are reported in the observation only.
//!      Compared with the model (`startupAt`, `storeOutcome`): on the unmodified code a missing parent directory
//!      or a directory at the path makes the store fail with a warning — no file, no directory is created.
//!   race h= reads=<k>   -> ok
//!      the daemon's storing thread rewrites the file in a tight loop (rotation interval 0) while the
//!      harness reads it concurrently: every snapshot either fails to load or is a complete key file
//!      (real truncate-then-write interleavings; OS behaviour: exercised, not proved).
#![allow(clippy::all, clippy::pedantic)]

#[path = "../common/mod.rs"]
mod common;

use super::super::*;
use common::{hex, kv, unhex, Rng, Run};
use std::sync::atomic::{AtomicU64, Ordering};

static PANICS: AtomicU64 = AtomicU64::new(0);
static HOOKED: AtomicU64 = AtomicU64::new(0);

fn count_panics() {
    if HOOKED.swap(1, Ordering::SeqCst) == 0 {
        let prev = std::panic::take_hook();
        std::panic::set_hook(Box::new(move |info| {
            PANICS.fetch_add(1, Ordering::SeqCst);
            prev(info);
        }));
    }
}

fn num(w: &[&str], k: &str) -> Option<u64> {
    kv(w, k).and_then(|v| v.parse().ok())
}

fn strip(op: &str, keys: &[&str]) -> String {
    op.split_whitespace()
        .filter(|w| match w.split_once('=') {
            Some((k, _)) => !keys.contains(&k),
            None => true,
        })
        .collect::<Vec<_>>()
        .join(" ")
}

/// same as `fileOf` of the driver (source is always `b=` here)
fn file_of(w: &[&str]) -> Vec<u8> {
    let mut b = unhex(kv(w, "b").unwrap_or("-")).expect("hex");
    for (k, off, width) in [("time", 0usize, 8usize), ("off", 8, 4), ("prim", 12, 4), ("len", 16, 4)] {
        if let Some(v) = num(w, k) {
            if b.len() >= off + width {
                if width == 8 {
                    b[off..off + 8].copy_from_slice(&v.to_be_bytes());
                } else {
                    b[off..off + 4].copy_from_slice(&(v as u32).to_be_bytes());
                }
            }
        }
    }
    if let (Some(i), Some(x)) = (num(w, "i"), num(w, "x")) {
        if (i as usize) < b.len() {
            b[i as usize] ^= x as u8;
        }
    }
    if let Some(n) = num(w, "n") {
        b.truncate(n as usize);
    }
    b
}

/// is `b` a complete, loadable key file (header consistent, body complete)?  (the property's notion of
/// "the key set being stored", evaluated without the code under test)
fn complete_valid(b: &[u8]) -> bool {
    if b.len() < 20 {
        return false;
    }
    let time = u64::from_be_bytes(b[0..8].try_into().unwrap());
    let prim = u32::from_be_bytes(b[12..16].try_into().unwrap()) as usize;
    let len = u32::from_be_bytes(b[16..20].try_into().unwrap()) as usize;
    time < (1 << 63) && prim < len && b.len() >= 20 + 64 * len
}

fn work_dir(run: &Run, tag: &str) -> std::path::PathBuf {
    let base = std::env::var("VERIF_OUT").unwrap_or_else(|_| "/tmp/verif-out".to_string());
    let d = std::path::Path::new(&base).join("spawn").join(format!("{}-{}", run.seed, tag));
    let _ = std::fs::remove_dir_all(&d);
    std::fs::create_dir_all(&d).expect("create work dir");
    d
}


const TEST_PATH: &str = "daemon::nts_key_provider::verif_daemon_nts_key_provider::kp::entry";

/// child mode (VERIF_STREAM=c27_spawn_child): run the real `spawn` once for KP_PATH under the umask the parent
/// set through the shell, wait for the first store attempt, report panics, exit.
fn child_main() {
    count_panics();
    let path = std::env::var("KP_PATH").expect("KP_PATH");
    let h: usize = std::env::var("KP_H").ok().and_then(|v| v.parse().ok()).unwrap_or(0);
    let result = std::env::var("KP_RESULT").expect("KP_RESULT");
    let config = KeysetConfig {
        stale_key_count: h,
        key_rotation_interval: 4_000_000_000,
        key_storage_path: Some(path),
    };
    let rt = tokio::runtime::Builder::new_current_thread().enable_all().build().unwrap();
    let changed = rt.block_on(async {
        let mut rx = spawn(config).await;
        // the storing thread publishes right after its first store attempt (successful or not)
        tokio::time::timeout(std::time::Duration::from_secs(30), rx.changed()).await.is_ok()
    });
    rt.shutdown_background();
    std::fs::write(&result, format!("panics={} changed={}", PANICS.load(Ordering::SeqCst), changed as u8)).expect("write result");
}

/// (relative path, is_dir, mode) of everything below `root`, sorted
fn walk(root: &std::path::Path) -> Vec<(String, bool, u32)> {
    fn go(root: &std::path::Path, d: &std::path::Path, out: &mut Vec<(String, bool, u32)>) {
        if let Ok(rd) = std::fs::read_dir(d) {
            for e in rd.flatten() {
                let p = e.path();
                if let Ok(m) = std::fs::symlink_metadata(&p) {
                    let rel = p.strip_prefix(root).unwrap().to_string_lossy().into_owned();
                    out.push((rel, m.is_dir(), m.permissions().mode() & 0o7777));
                    if m.is_dir() {
                        go(root, &p, out);
                    }
                }
            }
        }
    }
    let mut out = vec![];
    go(root, root, &mut out);
    out.sort();
    out
}

fn set_mode(p: &std::path::Path, mode: u32) {
    std::fs::set_permissions(p, std::fs::Permissions::from_mode(mode)).expect("chmod");
}

fn exec_startfs(op: &str, w: &[&str], k: usize, run: &mut Run) {
    let h = num(w, "h").unwrap_or(0);
    let umask = kv(w, "umask").unwrap_or("022").to_string();
    let layout = kv(w, "layout").unwrap_or("plain").to_string();
    if !["022", "077"].contains(&umask.as_str()) {
        run.end_op("bad-op");
        return;
    }
    let base = work_dir(run, &format!("{}-fs{}", std::process::id(), k));
    let root = base.join("root");
    std::fs::create_dir_all(&root).expect("root");
    set_mode(&root, 0o755);
    let input = if kv(w, "b").is_some() { file_of(w) } else { vec![] };
    let path = match layout.as_str() {
        "plain" => root.join("keys.dat"),
        "missing1" => root.join("state").join("keys.dat"),
        "missing2" => root.join("var").join("ntpd").join("keys.dat"),
        "dir" => {
            let p = root.join("keys.dat");
            std::fs::create_dir(&p).expect("mkdir");
            set_mode(&p, 0o755);
            p
        }
        "empty" => {
            let p = root.join("keys.dat");
            std::fs::write(&p, b"").expect("write");
            set_mode(&p, 0o600);
            p
        }
        "file644" => {
            let p = root.join("keys.dat");
            std::fs::write(&p, &input).expect("write");
            set_mode(&p, 0o644);
            p
        }
        _ => {
            run.end_op("bad-op");
            return;
        }
    };
    let before = walk(&root);
    let result = base.join("result.txt");
    let exe = std::env::current_exe().expect("current_exe");
    let out = std::process::Command::new("sh")
        .arg("-c")
        .arg(format!("umask {}; exec \"$0\" \"$@\"", umask))
        .arg(&exe)
        .args(["--exact", TEST_PATH, "--nocapture", "--test-threads", "1"])
        .env("VERIF_STREAM", "c27_spawn_child")
        .env("KP_PATH", &path)
        .env("KP_H", h.to_string())
        .env("KP_RESULT", &result)
        .output()
        .expect("run child");
    let res = std::fs::read_to_string(&result).unwrap_or_default();
    if !res.contains("changed=1") {
        panic!("child did not finish its first store attempt: {:?} {}", res, String::from_utf8_lossy(&out.stderr));
    }
    let panicked = !res.contains("panics=0");
    let after = walk(&root);
    let created: Vec<&(String, bool, u32)> = after.iter().filter(|a| !before.iter().any(|b| b.0 == a.0)).collect();
    let created_dirs: Vec<String> = created.iter().filter(|c| c.1).map(|c| format!("{}:{:o}", c.0.replace('/', "+"), c.2)).collect();
    // ---- the property on the file system: every NEWLY CREATED file is rw------- (whatever the umask)
    for c in created.iter().filter(|c| !c.1) {
        if c.2 & 0o077 != 0 || c.2 & 0o600 != 0o600 {
            run.oracle_fail(
                "mode",
                &format!("mode={:o} umask={} layout={}", c.2, umask, layout),
                &format!("newly created key file {} has mode {:o}, not rw-------", c.0, c.2),
            );
        }
    }
    if panicked {
        run.oracle_fail("abort_on_load", "", "the loading closure panicked (panic = \"abort\" in the workspace profiles)");
    }
    let rel = path.strip_prefix(&root).unwrap().to_string_lossy().into_owned();
    let file_now = after.iter().find(|a| a.0 == rel && !a.1);
    let existed = before.iter().any(|b| b.0 == rel && !b.1);
    let (fs, mode, body, loaded) = match file_now {
        Some(f) => {
            let bytes = std::fs::read(&path).unwrap_or_default();
            let body = if bytes.len() >= 8 { bytes[8..].to_vec() } else { vec![] };
            let in_len = if input.len() >= 20 { u32::from_be_bytes(input[16..20].try_into().unwrap()) as usize } else { 0 };
            let loaded = existed && in_len > 0 && input.len() >= 20 + 64 * in_len && body[..] == input[8..20 + 64 * in_len];
            (if existed { "overwritten" } else { "created" }, format!("{:o}", f.2), body, loaded)
        }
        None => ("nofile", "-".to_string(), vec![], false),
    };
    // restart clause: a complete valid existing file is restored
    if layout == "file644" && complete_valid(&input) && !loaded {
        run.oracle_fail("restart_lost_keys", "", "a complete valid key file was not restored");
    }
    run.hit(&format!("fs-{}-{}", layout, fs));
    run.hit(&format!("umask-{}", umask));
    run.nontrivial(&format!("fs{}{}{}", layout, umask, fs));
    let key = if loaded || body.len() < 76 { "-".to_string() } else { hex(&body[12..76]) };
    let obs = if panicked {
        "abort".to_string()
    } else {
        format!(
            "{} fs={} mode={} dirs={} body={}",
            if loaded { "loaded" } else { "fresh" },
            fs,
            mode,
            common::comma_list(&created_dirs),
            hex(&body)
        )
    };
    let _ = std::fs::remove_dir_all(&base);
    run.end_op_as(&format!("{} key={}", strip(op, &["key"]), key), &obs);
}

fn exec_case(ops: &[String], run: &mut Run) {
    count_panics();
    for (k, op) in ops.iter().enumerate() {
        run.begin_op(op);
        let w: Vec<&str> = op.split_whitespace().collect();
        match w.first().copied() {
            Some("start") => {
                let h = num(&w, "h").unwrap_or(0) as usize;
                let nofile = kv(&w, "nofile").is_some();
                let input = if nofile { vec![] } else { file_of(&w) };
                let dir = work_dir(run, &format!("{}-{}", std::process::id(), k));
                let path = dir.join("keys.dat");
                if !nofile {
                    std::fs::write(&path, &input).expect("write input file");
                }
                let mode_before = std::fs::metadata(&path).ok().map(|m| m.permissions().mode() & 0o7777);
                let config = KeysetConfig {
                    stale_key_count: h,
                    key_rotation_interval: 4_000_000_000,
                    key_storage_path: Some(path.to_string_lossy().into_owned()),
                };
                let panics_before = PANICS.load(Ordering::SeqCst);
                let rt = tokio::runtime::Builder::new_current_thread().enable_all().build().unwrap();
                let stored: Vec<u8> = rt.block_on(async {
                    let mut rx = spawn(config).await;
                    // the storing thread saves first, then publishes: after `changed` the file is complete
                    let _ = tokio::time::timeout(std::time::Duration::from_secs(30), rx.changed()).await;
                    let bytes = std::fs::read(&path).unwrap_or_default();
                    drop(rx);
                    bytes
                });
                rt.shutdown_background();
                let panicked = PANICS.load(Ordering::SeqCst) != panics_before;
                let mode_after = std::fs::metadata(&path).ok().map(|m| m.permissions().mode() & 0o7777);
                let body = if stored.len() >= 8 { stored[8..].to_vec() } else { vec![] };
                let in_len = if input.len() >= 20 { u32::from_be_bytes(input[16..20].try_into().unwrap()) as usize } else { 0 };
                let loaded = input.len() >= 20 + 64 * in_len && in_len > 0 && body[..] == input[8..20 + 64 * in_len];
                let fresh_shape = body.len() == 12 + 64 && body[0..12] == [0, 0, 0, 0, 0, 0, 0, 0, 0, 0, 0, 1];
                // ---- the property, evaluated on the file system
                if panicked {
                    run.oracle_fail("abort_on_load", "", "the loading closure panicked (panic = \"abort\" in the workspace profiles)");
                }
                if nofile {
                    match mode_after {
                        Some(0o600) => run.hit("created-0600"),
                        m => run.oracle_fail("mode", &format!("mode={:o}", m.unwrap_or(0)), "newly created key file is not rw------- "),
                    }
                } else if mode_before != mode_after {
                    run.hit("mode-changed-existing");
                }
                if !nofile && complete_valid(&input) {
                    if !loaded {
                        run.oracle_fail("restart_lost_keys", "", "a complete valid key file was not restored");
                    }
                    run.hit("restored");
                    run.nontrivial(&format!("L{}", in_len));
                } else {
                    if !fresh_shape && !panicked {
                        run.oracle_fail("no_fresh_fallback", &format!("inlen={}", input.len()), "unloadable or missing file: the daemon did not continue with one fresh key");
                    }
                    run.hit(if nofile { "fresh-nofile" } else { "fresh-fallback" });
                    run.nontrivial(&format!("F{}", input.len().min(200)));
                }
                let obs = if panicked {
                    "abort".to_string()
                } else if loaded {
                    format!("loaded {}", hex(&body))
                } else {
                    format!("fresh {}", hex(&body))
                };
                let key = if loaded || body.len() < 76 { "-".to_string() } else { hex(&body[12..76]) };
                let _ = std::fs::remove_dir_all(&dir);
                run.end_op_as(&format!("{} key={}", strip(op, &["key"]), key), &obs);
            }
            Some("startfs") => exec_startfs(op, &w, k, run),
            Some("race") => {
                let h = num(&w, "h").unwrap_or(1) as usize;
                let reads = num(&w, "reads").unwrap_or(100);
                let dir = work_dir(run, &format!("{}-race{}", std::process::id(), k));
                let path = dir.join("keys.dat");
                let config = KeysetConfig {
                    stale_key_count: h,
                    key_rotation_interval: 0,
                    key_storage_path: Some(path.to_string_lossy().into_owned()),
                };
                let rt = tokio::runtime::Builder::new_current_thread().enable_all().build().unwrap();
                let (mut ok, mut err, mut partial, mut torn) = (0u64, 0u64, 0u64, 0u64);
                let mut bad: Option<String> = None;
                rt.block_on(async {
                    let rx = spawn(config).await;
                    for _ in 0..reads {
                        let snap = std::fs::read(&path).unwrap_or_default();
                        match KeySetProvider::load(&mut &snap[..], h) {
                            Ok(_) => {
                                ok += 1;
                                let len = u32::from_be_bytes(snap[16..20].try_into().unwrap()) as usize;
                                let prim = u32::from_be_bytes(snap[12..16].try_into().unwrap()) as usize;
                                // A snapshot read WHILE the file is being rewritten can be torn (old bytes up to
                                // the reader's offset, new bytes after it) - that is not a crash state, so only
                                // what must hold of ANY loaded file is judged: usable (primary < len, all keys
                                // present).  Header/size combinations a crash prefix could not show are counted.
                                if prim >= len || snap.len() < 20 + 64 * len {
                                    bad = Some(format!("snapshot of {} bytes loaded: len={} prim={}", snap.len(), len, prim));
                                } else if snap.len() != 20 + 64 * len || prim + 1 != len || len > h + 1 {
                                    torn += 1;
                                }
                            }
                            Err(_) => {
                                err += 1;
                                if !snap.is_empty() {
                                    partial += 1;
                                }
                            }
                        }
                        std::thread::yield_now();
                    }
                    drop(rx); // the storing thread stops at its next publish
                });
                rt.shutdown_background();
                std::thread::sleep(std::time::Duration::from_millis(20));
                let _ = std::fs::remove_dir_all(&dir);
                if let Some(t) = bad {
                    run.oracle_fail("crash_snapshot_inconsistent", "", &t);
                }
                if ok > 0 {
                    run.hit("race-complete");
                }
                if err > 0 {
                    run.hit("race-rejected");
                }
                if partial > 0 {
                    run.hit("race-partial-seen");
                }
                if torn > 0 {
                    run.hit("race-torn-read");
                }
                run.nontrivial(&format!("race{}", h));
                run.end_op("ok");
            }
            _ => run.end_op("bad-op"),
        }
    }
}

fn gen_file(rng: &mut Rng, nkeys: usize) -> Vec<u8> {
    let mut b = vec![];
    b.extend_from_slice(&1_700_000_000u64.to_be_bytes());
    let off: u32 = match rng.below(4) {
        0 => 0,
        1 => u32::MAX - rng.below(3) as u32,
        _ => rng.below(1000) as u32,
    };
    b.extend_from_slice(&off.to_be_bytes());
    b.extend_from_slice(&((nkeys as u32).saturating_sub(1)).to_be_bytes());
    b.extend_from_slice(&(nkeys as u32).to_be_bytes());
    b.extend_from_slice(&rng.bytes(64 * nkeys));
    b
}

fn gen_startfs(h: u64, umask: &str, layout: &str, file_hex: &str) -> String {
    if layout == "file644" {
        format!("startfs p=0 h={} umask={} layout={} b={} mode=644", h, umask, layout, file_hex)
    } else if layout == "empty" {
        format!("startfs p=0 h={} umask={} layout={} mode=600", h, umask, layout)
    } else {
        format!("startfs p=0 h={} umask={} layout={}", h, umask, layout)
    }
}

fn gen_case(rng: &mut Rng, idx: u64, _run: &Run) -> Vec<String> {
    let h = rng.below(6);
    let nkeys = rng.usize(1, (h as usize) + 1);
    let file = gen_file(rng, nkeys);
    let flen = file.len();
    let fh = hex(&file);
    let mut ops = vec![];
    match idx {
        // witnesses first: F-C27 (len = 0, primary = 0), primary == len, time word beyond SystemTime
        0 => ops.push(format!("start p=0 h=3 b={}", hex(&[0u8; 20]))),
        1 => ops.push(format!("start p=0 h={} b={} prim={}", h, fh, nkeys)),
        2 => ops.push(format!("start p=0 h={} b={} time=9223372036854775808", h, fh)),
        3 => ops.push("start p=0 h=2 nofile=1".to_string()),
        4 => ops.push("race h=2 reads=300".to_string()),
        // key-storage-path layouts x umask (022 and 077), all of them first
        5..=16 => {
            let layouts = ["plain", "missing1", "missing2", "dir", "empty", "file644"];
            let layout = layouts[((idx - 5) / 2) as usize];
            let umask = if (idx - 5) % 2 == 0 { "022" } else { "077" };
            ops.push(gen_startfs(h, umask, layout, &fh));
        }
        _ => match rng.below(13) {
            0 => ops.push(format!("start p=0 h={} nofile=1", h)),
            1 | 2 => ops.push(format!("start p=0 h={} b={}", h, fh)),
            3 | 4 | 5 => {
                // crash point of a store: a strict prefix (boundaries preferred)
                let n = match rng.below(6) {
                    0 => 0,
                    1 => rng.usize(1, 19),
                    2 => 20,
                    3 => flen - 1,
                    4 => 20 + 64 * rng.usize(0, nkeys - 1) + rng.usize(0, 1),
                    _ => rng.usize(0, flen - 1),
                };
                ops.push(format!("start p=0 h={} b={} n={}", h, fh, n));
            }
            6 => {
                let prims = [0u64, nkeys as u64 - 1, nkeys as u64, nkeys as u64 + 1, u32::MAX as u64];
                let lens = [0u64, 1, nkeys as u64 - 1, nkeys as u64, nkeys as u64 + 1, u32::MAX as u64];
                ops.push(format!("start p=0 h={} b={} prim={} len={}", h, fh, rng.pick(&prims), rng.pick(&lens)));
            }
            7 => {
                let i = rng.usize(8, flen - 1); // a flipped byte outside the time word
                ops.push(format!("start p=0 h={} b={} i={} x={}", h, fh, i, 1 + rng.below(255)));
            }
            8 => ops.push(format!("start p=0 h={} b={} time={}", h, fh, rng.pick(&[1u64 << 63, u64::MAX, (1 << 63) + 12345]))),
            9 => ops.push(format!("race h={} reads={}", h, 100 + rng.below(200))),
            _ => {
                let layout = *rng.pick(&["plain", "missing1", "missing2", "dir", "empty", "file644", "missing1", "plain"]);
                let umask = *rng.pick(&["022", "077"]);
                ops.push(gen_startfs(h, umask, layout, &fh));
            }
        },
    }
    ops
}

#[test]
fn entry() {
    let stream = std::env::var("VERIF_STREAM").unwrap_or_default();
    match stream.as_str() {
        "c27_spawn_child" => child_main(),
        "c27_spawn" => common::drive(
            "c27_spawn",
            "real nts_key_provider::spawn in a temp dir: no file / complete file / every kind of strict prefix / corrupted header words / flipped bytes; the file the daemon stores next is compared with the model's startup+store; mode 0600 of a new file; key-storage-path in an existing dir / a missing sub-directory (1 and 2 levels) / being a directory / an existing empty file / an existing 0644 key file, each in a child process with umask 022 and 077, every created file's mode checked; concurrent readers of a tight store loop; non-trivial = every case; distinct by outcome and size",
            gen_case,
            exec_case,
        ),
        other => panic!("unknown VERIF_STREAM {:?}", other),
    }
}
