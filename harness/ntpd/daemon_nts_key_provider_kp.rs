//! verification harness module for C27 (keyset cluster), included into
//! `ntpd/src/daemon/nts_key_provider.rs` through the guarded hook.
//!
//! Stream c27_spawn: the REAL `nts_key_provider::spawn` is run in a temporary directory.
//!   start p=0 h=<stale_key_count> key=<fresh key, read back> (nofile=1 | b=<file bytes> [n=<prefix>] ...)
//!       -> `loaded <file the daemon then stores, time word dropped>` | `fresh <...>` | `abort`
//!      (compared with the model's `startup` followed by `store`); the oracle checks, on the real file
//!      system: a newly created file has mode 0600; a complete valid file is restored exactly; a strict
//!      prefix of one (a crash point of truncate-then-write) gives fresh keys; the loading closure never
//!      panics (the workspace builds with panic = "abort", in the test build tokio would swallow it).
//!   race h= reads=<k>   -> ok
//!      the daemon's storing thread rewrites the file in a tight loop (rotation interval 0) while the
//!      harness reads it concurrently: every snapshot either fails to load or is a complete key file
//!      (real truncate-then-write interleavings; OS behaviour: exercised, not proved).
#![allow(clippy::all, clippy::pedantic)]

#[path = "../common/mod.rs"]
mod common;

use super::super::*;
use common::{hex, kv, unhex, Rng, Run};
use std::sync::atomic::{AtomicU64, Ordering};

static PANICS: AtomicU64 = AtomicU64::new(0);
static HOOKED: AtomicU64 = AtomicU64::new(0);

fn count_panics() {
    if HOOKED.swap(1, Ordering::SeqCst) == 0 {
        let prev = std::panic::take_hook();
        std::panic::set_hook(Box::new(move |info| {
            PANICS.fetch_add(1, Ordering::SeqCst);
            prev(info);
        }));
    }
}

fn num(w: &[&str], k: &str) -> Option<u64> {
    kv(w, k).and_then(|v| v.parse().ok())
}

fn strip(op: &str, keys: &[&str]) -> String {
    op.split_whitespace()
        .filter(|w| match w.split_once('=') {
            Some((k, _)) => !keys.contains(&k),
            None => true,
        })
        .collect::<Vec<_>>()
        .join(" ")
}

/// same as `fileOf` of the driver (source is always `b=` here)
fn file_of(w: &[&str]) -> Vec<u8> {
    let mut b = unhex(kv(w, "b").unwrap_or("-")).expect("hex");
    for (k, off, width) in [("time", 0usize, 8usize), ("off", 8, 4), ("prim", 12, 4), ("len", 16, 4)] {
        if let Some(v) = num(w, k) {
            if b.len() >= off + width {
                if width == 8 {
                    b[off..off + 8].copy_from_slice(&v.to_be_bytes());
                } else {
                    b[off..off + 4].copy_from_slice(&(v as u32).to_be_bytes());
                }
            }
        }
    }
    if let (Some(i), Some(x)) = (num(w, "i"), num(w, "x")) {
        if (i as usize) < b.len() {
            b[i as usize] ^= x as u8;
        }
    }
    if let Some(n) = num(w, "n") {
        b.truncate(n as usize);
    }
    b
}

/// is `b` a complete, loadable key file (header consistent, body complete)?  (the property's notion of
/// "the key set being stored", evaluated without the code under test)
fn complete_valid(b: &[u8]) -> bool {
    if b.len() < 20 {
        return false;
    }
    let time = u64::from_be_bytes(b[0..8].try_into().unwrap());
    let prim = u32::from_be_bytes(b[12..16].try_into().unwrap()) as usize;
    let len = u32::from_be_bytes(b[16..20].try_into().unwrap()) as usize;
    time < (1 << 63) && prim < len && b.len() >= 20 + 64 * len
}

fn work_dir(run: &Run, tag: &str) -> std::path::PathBuf {
    let base = std::env::var("VERIF_OUT").unwrap_or_else(|_| "/tmp/verif-out".to_string());
    let d = std::path::Path::new(&base).join("spawn").join(format!("{}-{}", run.seed, tag));
    let _ = std::fs::remove_dir_all(&d);
    std::fs::create_dir_all(&d).expect("create work dir");
    d
}

fn exec_case(ops: &[String], run: &mut Run) {
    count_panics();
    for (k, op) in ops.iter().enumerate() {
        run.begin_op(op);
        let w: Vec<&str> = op.split_whitespace().collect();
        match w.first().copied() {
            Some("start") => {
                let h = num(&w, "h").unwrap_or(0) as usize;
                let nofile = kv(&w, "nofile").is_some();
                let input = if nofile { vec![] } else { file_of(&w) };
                let dir = work_dir(run, &format!("{}-{}", std::process::id(), k));
                let path = dir.join("keys.dat");
                if !nofile {
                    std::fs::write(&path, &input).expect("write input file");
                }
                let mode_before = std::fs::metadata(&path).ok().map(|m| m.permissions().mode() & 0o7777);
                let config = KeysetConfig {
                    stale_key_count: h,
                    key_rotation_interval: 4_000_000_000,
                    key_storage_path: Some(path.to_string_lossy().into_owned()),
                };
                let panics_before = PANICS.load(Ordering::SeqCst);
                let rt = tokio::runtime::Builder::new_current_thread().enable_all().build().unwrap();
                let stored: Vec<u8> = rt.block_on(async {
                    let mut rx = spawn(config).await;
                    // the storing thread saves first, then publishes: after `changed` the file is complete
                    let _ = tokio::time::timeout(std::time::Duration::from_secs(30), rx.changed()).await;
                    let bytes = std::fs::read(&path).unwrap_or_default();
                    drop(rx);
                    bytes
                });
                rt.shutdown_background();
                let panicked = PANICS.load(Ordering::SeqCst) != panics_before;
                let mode_after = std::fs::metadata(&path).ok().map(|m| m.permissions().mode() & 0o7777);
                let body = if stored.len() >= 8 { stored[8..].to_vec() } else { vec![] };
                let in_len = if input.len() >= 20 { u32::from_be_bytes(input[16..20].try_into().unwrap()) as usize } else { 0 };
                let loaded = input.len() >= 20 + 64 * in_len && in_len > 0 && body[..] == input[8..20 + 64 * in_len];
                let fresh_shape = body.len() == 12 + 64 && body[0..12] == [0, 0, 0, 0, 0, 0, 0, 0, 0, 0, 0, 1];
                // ---- the property, evaluated on the file system
                if panicked {
                    run.oracle_fail("abort_on_load", "", "the loading closure panicked (panic = \"abort\" in the workspace profiles)");
                }
                if nofile {
                    match mode_after {
                        Some(0o600) => run.hit("created-0600"),
                        m => run.oracle_fail("mode", &format!("mode={:o}", m.unwrap_or(0)), "newly created key file is not rw------- "),
                    }
                } else if mode_before != mode_after {
                    run.hit("mode-changed-existing");
                }
                if !nofile && complete_valid(&input) {
                    if !loaded {
                        run.oracle_fail("restart_lost_keys", "", "a complete valid key file was not restored");
                    }
                    run.hit("restored");
                    run.nontrivial(&format!("L{}", in_len));
                } else {
                    if !fresh_shape && !panicked {
                        run.oracle_fail("no_fresh_fallback", &format!("inlen={}", input.len()), "unloadable or missing file: the daemon did not continue with one fresh key");
                    }
                    run.hit(if nofile { "fresh-nofile" } else { "fresh-fallback" });
                    run.nontrivial(&format!("F{}", input.len().min(200)));
                }
                let obs = if panicked {
                    "abort".to_string()
                } else if loaded {
                    format!("loaded {}", hex(&body))
                } else {
                    format!("fresh {}", hex(&body))
                };
                let key = if loaded || body.len() < 76 { "-".to_string() } else { hex(&body[12..76]) };
                let _ = std::fs::remove_dir_all(&dir);
                run.end_op_as(&format!("{} key={}", strip(op, &["key"]), key), &obs);
            }
            Some("race") => {
                let h = num(&w, "h").unwrap_or(1) as usize;
                let reads = num(&w, "reads").unwrap_or(100);
                let dir = work_dir(run, &format!("{}-race{}", std::process::id(), k));
                let path = dir.join("keys.dat");
                let config = KeysetConfig {
                    stale_key_count: h,
                    key_rotation_interval: 0,
                    key_storage_path: Some(path.to_string_lossy().into_owned()),
                };
                let rt = tokio::runtime::Builder::new_current_thread().enable_all().build().unwrap();
                let (mut ok, mut err, mut partial) = (0u64, 0u64, 0u64);
                let mut bad: Option<String> = None;
                rt.block_on(async {
                    let rx = spawn(config).await;
                    for _ in 0..reads {
                        let snap = std::fs::read(&path).unwrap_or_default();
                        match KeySetProvider::load(&mut &snap[..], h) {
                            Ok(_) => {
                                ok += 1;
                                let len = u32::from_be_bytes(snap[16..20].try_into().unwrap()) as usize;
                                let prim = u32::from_be_bytes(snap[12..16].try_into().unwrap()) as usize;
                                if snap.len() != 20 + 64 * len || prim + 1 != len || len > h + 1 {
                                    bad = Some(format!("snapshot of {} bytes loaded: len={} prim={}", snap.len(), len, prim));
                                }
                            }
                            Err(_) => {
                                err += 1;
                                if !snap.is_empty() {
                                    partial += 1;
                                }
                            }
                        }
                        std::thread::yield_now();
                    }
                    drop(rx); // the storing thread stops at its next publish
                });
                rt.shutdown_background();
                std::thread::sleep(std::time::Duration::from_millis(20));
                let _ = std::fs::remove_dir_all(&dir);
                if let Some(t) = bad {
                    run.oracle_fail("crash_snapshot_inconsistent", "", &t);
                }
                if ok > 0 {
                    run.hit("race-complete");
                }
                if err > 0 {
                    run.hit("race-rejected");
                }
                if partial > 0 {
                    run.hit("race-partial-seen");
                }
                run.nontrivial(&format!("race{}", h));
                run.end_op("ok");
            }
            _ => run.end_op("bad-op"),
        }
    }
}

fn gen_file(rng: &mut Rng, nkeys: usize) -> Vec<u8> {
    let mut b = vec![];
    b.extend_from_slice(&1_700_000_000u64.to_be_bytes());
    let off: u32 = match rng.below(4) {
        0 => 0,
        1 => u32::MAX - rng.below(3) as u32,
        _ => rng.below(1000) as u32,
    };
    b.extend_from_slice(&off.to_be_bytes());
    b.extend_from_slice(&((nkeys as u32).saturating_sub(1)).to_be_bytes());
    b.extend_from_slice(&(nkeys as u32).to_be_bytes());
    b.extend_from_slice(&rng.bytes(64 * nkeys));
    b
}

fn gen_case(rng: &mut Rng, idx: u64, _run: &Run) -> Vec<String> {
    let h = rng.below(6);
    let nkeys = rng.usize(1, (h as usize) + 1);
    let file = gen_file(rng, nkeys);
    let flen = file.len();
    let fh = hex(&file);
    let mut ops = vec![];
    match idx {
        // witnesses first: F-C27 (len = 0, primary = 0), primary == len, time word beyond SystemTime
        0 => ops.push(format!("start p=0 h=3 b={}", hex(&[0u8; 20]))),
        1 => ops.push(format!("start p=0 h={} b={} prim={}", h, fh, nkeys)),
        2 => ops.push(format!("start p=0 h={} b={} time=9223372036854775808", h, fh)),
        3 => ops.push("start p=0 h=2 nofile=1".to_string()),
        4 => ops.push("race h=2 reads=300".to_string()),
        _ => match rng.below(10) {
            0 => ops.push(format!("start p=0 h={} nofile=1", h)),
            1 | 2 => ops.push(format!("start p=0 h={} b={}", h, fh)),
            3 | 4 | 5 => {
                // crash point of a store: a strict prefix (boundaries preferred)
                let n = match rng.below(6) {
                    0 => 0,
                    1 => rng.usize(1, 19),
                    2 => 20,
                    3 => flen - 1,
                    4 => 20 + 64 * rng.usize(0, nkeys - 1) + rng.usize(0, 1),
                    _ => rng.usize(0, flen - 1),
                };
                ops.push(format!("start p=0 h={} b={} n={}", h, fh, n));
            }
            6 => {
                let prims = [0u64, nkeys as u64 - 1, nkeys as u64, nkeys as u64 + 1, u32::MAX as u64];
                let lens = [0u64, 1, nkeys as u64 - 1, nkeys as u64, nkeys as u64 + 1, u32::MAX as u64];
                ops.push(format!("start p=0 h={} b={} prim={} len={}", h, fh, rng.pick(&prims), rng.pick(&lens)));
            }
            7 => {
                let i = rng.usize(8, flen - 1); // a flipped byte outside the time word
                ops.push(format!("start p=0 h={} b={} i={} x={}", h, fh, i, 1 + rng.below(255)));
            }
            8 => ops.push(format!("start p=0 h={} b={} time={}", h, fh, rng.pick(&[1u64 << 63, u64::MAX, (1 << 63) + 12345]))),
            _ => ops.push(format!("race h={} reads={}", h, 100 + rng.below(200))),
        },
    }
    ops
}

#[test]
fn entry() {
    let stream = std::env::var("VERIF_STREAM").unwrap_or_default();
    match stream.as_str() {
        "c27_spawn" => common::drive(
            "c27_spawn",
            "real nts_key_provider::spawn in a temp dir: no file / complete file / every kind of strict prefix / corrupted header words / flipped bytes; the file the daemon stores next is compared with the model's startup+store; mode 0600 of a new file; concurrent readers of a tight store loop; non-trivial = every case; distinct by outcome and size",
            gen_case,
            exec_case,
        ),
        other => panic!("unknown VERIF_STREAM {:?}", other),
    }
}
