//! verification harness dispatcher for hook `verif_daemon_system` of crate `ntpd` (guarded hook).
//! Add one line per property cluster:   #[path = "daemon_system_<cluster>.rs"] mod <cluster>;
//! Each sub-module has its own `#[test] fn entry()` selected by VERIF_STREAM and reaches the private
//! items of the module the hook sits in through `super::super::*`.

#[path = "daemon_system_sys.rs"]
mod sys;
