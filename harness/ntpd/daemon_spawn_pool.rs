//! verification harness module included into `ntpd/src/daemon/spawn/pool.rs` (guarded hook).
