//! verification harness module included into `ntpd/src/daemon/config/mod.rs` (guarded hook).
