//! verification harness module included into `ntpd/src/daemon/config/mod.rs` (guarded hook), property C39.
//! Grandchild of `crate::daemon::config`: sees `Config`, the private `count_sources`, `check`.
//!
//! Streams (VERIF_STREAM):
//!   c39_cfg  — structured daemon configurations (threshold fields in every form, the accumulated threshold,
//!              minimum-agreeing-sources, a list of sources incl. pools with boundary counts) rendered to TOML,
//!              loaded with the REAL `toml::from_str::<Config>` and checked with `Config::check()`; the Lean
//!              model predicts accept/reject, the stored thresholds, the source count and the check verdict
//!   c39_docs — no-crash stream (no model): every TOML file and ```toml block of the repository's docs, the
//!              same documents with numeric / string tokens replaced by {nan, inf, -inf, -1, -0.0, 1e300, i64
//!              limits, strings, tables, arrays}, line deletions / duplications, and random byte edits
#![allow(clippy::all, clippy::pedantic)]

#[path = "../common/mod.rs"]
mod common;

use super::super::*;
use common::{hex, kv, unhex, Rng, Run};
use ntp_proto::{NtpDuration, NtpTimestamp, StepThreshold};

fn ts_raw(t: NtpTimestamp) -> u64 {
    serde_json::to_value(t).unwrap()["timestamp"].as_u64().unwrap()
}

/// raw i64 of an `NtpDuration` (`0 - d` on timestamps is `0u64.wrapping_sub(d as u64)`)
fn dur_raw(d: NtpDuration) -> i64 {
    let zero: NtpTimestamp = serde_json::from_value(serde_json::json!({ "timestamp": 0u64 })).unwrap();
    0u64.wrapping_sub(ts_raw(zero - d)) as i64
}

// ------------------------------------------------------------------ value syntax shared with c39_thr

/// scalar text form  f:<16 hex>  i:<dec>  s:<hex utf8>  b  m      table  t:k=v;k=v   absent  -
fn toml_scalar(s: &str) -> Option<String> {
    if s == "b" {
        return Some("true".to_string());
    }
    if s == "m" {
        return Some("{}".to_string());
    }
    let (k, r) = s.split_once(':')?;
    match k {
        "f" => {
            let f = f64::from_bits(u64::from_str_radix(r, 16).ok()?);
            Some(if f.is_nan() {
                "nan".to_string()
            } else if f.is_infinite() {
                if f > 0.0 { "inf".to_string() } else { "-inf".to_string() }
            } else {
                let t = format!("{:?}", f);
                // TOML needs a digit after the dot and no bare exponent-less integers for floats
                if t.contains('.') || t.contains('e') || t.contains("inf") || t.contains("NaN") { t } else { format!("{}.0", t) }
            })
        }
        "i" => Some(r.parse::<i64>().ok()?.to_string()),
        "s" => {
            let text = String::from_utf8(unhex(r)?).ok()?;
            if !text.chars().all(|c| c.is_ascii_alphanumeric() || " .-_+".contains(c)) {
                return None;
            }
            Some(format!("\"{}\"", text))
        }
        _ => None,
    }
}

fn toml_value(s: &str) -> Option<String> {
    if let Some(r) = s.strip_prefix("t:") {
        if r == "-" {
            return Some("{}".to_string());
        }
        let mut parts = vec![];
        for part in r.split(';') {
            let (k, x) = part.split_once('=')?;
            if !k.chars().all(|c| c.is_ascii_alphanumeric() || c == '-' || c == '_') || k.is_empty() {
                return None;
            }
            parts.push(format!("{} = {}", k, toml_scalar(x)?));
        }
        Some(format!("{{ {} }}", parts.join(", ")))
    } else {
        toml_scalar(s)
    }
}

fn gen_f64(rng: &mut Rng) -> f64 {
    const S: &[u64] = &[
        0x7ff8000000000000, 0x7ff0000000000000, 0xfff0000000000000, 0x0000000000000000, 0x8000000000000000,
        0x0000000000000001, 0xbff0000000000000, 0x3ff0000000000000, 0x408f400000000000, 0x40f5180000000000,
        0x7fefffffffffffff, 0xffefffffffffffff, 0x7e37e43c8800759c, 0x41dfffffffc00000, 0x41e0000000000000,
        0xc1e0000000000000, 0x3df0000000000000, 0xbdf0000000000000, 0x3fefffffffffffff,
    ];
    match rng.below(8) {
        0..=2 => f64::from_bits(*rng.pick(S)),
        3 => {
            let f = f64::from_bits(rng.next_u64());
            if f.is_nan() { f64::NAN } else { f }
        }
        4 => -(rng.f64_unit() * (2.0f64).powi(rng.range(-40, 40) as i32)),
        _ => rng.f64_unit() * (2.0f64).powi(rng.range(-34, 34) as i32),
    }
}

fn gen_scalar(rng: &mut Rng) -> String {
    match rng.below(14) {
        0..=7 => format!("f:{:016x}", gen_f64(rng).to_bits()),
        8 => format!("i:{}", rng.pick(&[0i64, 1, -1, 1000, i64::MAX, i64::MIN, i32::MAX as i64, i32::MAX as i64 + 1, i32::MIN as i64 - 1])),
        9 => format!("i:{}", rng.next_u64() as i64 >> rng.below(64)),
        10 => format!("s:{}", hex(b"inf")),
        11 => format!("s:{}", hex(rng.pick(&["Inf", "-inf", "nan", "", "1.0"]).as_bytes())),
        12 => "b".to_string(),
        _ => "m".to_string(),
    }
}

fn gen_threshold(rng: &mut Rng) -> String {
    match rng.below(10) {
        0..=1 => "-".to_string(),
        2..=4 => gen_scalar(rng),
        _ => {
            let n = match rng.below(8) {
                0 => 0,
                1..=3 => 1,
                _ => 2,
            };
            if n == 0 {
                return "t:-".to_string();
            }
            let mut keys = vec!["forward", "backward"];
            if rng.chance(1, 2) {
                keys.reverse();
            }
            if rng.chance(1, 12) {
                keys[0] = *rng.pick(&["Forward", "forwards", "back"]);
            }
            let parts: Vec<String> = keys.iter().take(n).map(|k| format!("{}={}", k, gen_scalar(rng))).collect();
            format!("t:{}", parts.join(";"))
        }
    }
}

fn gen_cfg_case(rng: &mut Rng, idx: u64, _run: &Run) -> Vec<String> {
    // design-time witnesses first (F-C39)
    match idx {
        0 => return vec!["cfg single=t:forward=f:bff0000000000000 startup=- accum=- min=- src=-".to_string()],
        1 => return vec!["cfg single=t:forward=f:7ff8000000000000 startup=- accum=- min=- src=-".to_string()],
        2 => return vec!["cfg single=- startup=t:backward=f:7ff0000000000000 accum=- min=- src=-".to_string()],
        3 => return vec!["cfg single=- startup=- accum=- min=- src=p9223372036854775807,p9223372036854775807,p9223372036854775807".to_string()],
        _ => {}
    }
    let single = gen_threshold(rng);
    let startup = gen_threshold(rng);
    let accum = match rng.below(6) {
        0..=2 => "-".to_string(),
        _ => gen_scalar(rng),
    };
    let min = match rng.below(10) {
        0..=3 => "-".to_string(),
        4 => "-1".to_string(),
        5 => rng.pick(&["0", "1", "3", "4", "5", "9223372036854775807"]).to_string(),
        _ => rng.usize(0, 12).to_string(),
    };
    let nsrc = match rng.below(8) {
        0 => 0,
        _ => rng.usize(1, 5),
    };
    let mut src = vec![];
    for _ in 0..nsrc {
        src.push(match rng.below(10) {
            0..=2 => "s".to_string(),
            3 => "n".to_string(),
            4 => "k".to_string(),
            5 => "p".to_string(), // default count
            6 => format!("{}{}", rng.pick(&["p", "q"]), rng.pick(&["0", "1", "2", "4", "-1", "9223372036854775807", "9223372036854775806", "4611686018427387904"])),
            _ => format!("{}{}", rng.pick(&["p", "q"]), rng.usize(0, 6)),
        });
    }
    vec![format!(
        "cfg single={} startup={} accum={} min={} src={}",
        single,
        startup,
        accum,
        min,
        common::comma_list(&src)
    )]
}

fn render_cfg(w: &[&str]) -> Option<String> {
    let mut t = String::from("[synchronization]\n");
    let fields = [
        ("single", "single-step-panic-threshold"),
        ("startup", "startup-step-panic-threshold"),
        ("accum", "accumulated-step-panic-threshold"),
    ];
    for (k, name) in fields {
        let v = kv(w, k)?;
        if v != "-" {
            t.push_str(&format!("{} = {}\n", name, toml_value(v)?));
        }
    }
    let min = kv(w, "min")?;
    if min != "-" {
        t.push_str(&format!("minimum-agreeing-sources = {}\n", min.parse::<i64>().ok()?));
    }
    let src = kv(w, "src")?;
    if src != "-" {
        for (i, s) in src.split(',').enumerate() {
            t.push_str("\n[[source]]\n");
            let (kind, arg) = s.split_at(1);
            match kind {
                "s" => t.push_str(&format!("mode = \"server\"\naddress = \"s{}.test:123\"\n", i)),
                "n" => t.push_str(&format!("mode = \"nts\"\naddress = \"n{}.test:4460\"\n", i)),
                "k" => t.push_str(&format!("mode = \"sock\"\npath = \"/verif/sock{}\"\nprecision = 0.001\n", i)),
                "p" | "q" => {
                    let mode = if kind == "p" { "pool" } else { "nts-pool" };
                    t.push_str(&format!("mode = \"{}\"\naddress = \"p{}.test\"\n", mode, i));
                    if !arg.is_empty() {
                        t.push_str(&format!("count = {}\n", arg.parse::<i64>().ok()?));
                    }
                }
                _ => return None,
            }
            if kind != "p" && kind != "q" && !arg.is_empty() {
                return None;
            }
        }
    }
    Some(t)
}

fn thr_str(t: &StepThreshold) -> String {
    let o = |x: Option<NtpDuration>| x.map(|d| dur_raw(d).to_string()).unwrap_or_else(|| "none".to_string());
    format!("{}/{}", o(t.forward), o(t.backward))
}

/// the property's clause on a loaded configuration, evaluated directly
fn threshold_oracle(cfg: &Config, run: &mut Run) {
    let base = &cfg.synchronization.synchronization_base;
    for (name, t) in [("single", &base.single_step_panic_threshold), ("startup", &base.startup_step_panic_threshold)] {
        for (dir, d) in [("forward", t.forward), ("backward", t.backward)] {
            if let Some(d) = d {
                if d < NtpDuration::ZERO {
                    run.oracle_fail(
                        "accepted_threshold_sane",
                        &format!("field={} dir={}", name, dir),
                        &format!("accepted {}-step-panic-threshold.{} is negative ({} units)", name, dir, dur_raw(d)),
                    );
                }
            }
        }
    }
}

fn exec_cfg_case(ops: &[String], run: &mut Run) {
    for op in ops {
        run.begin_op(op);
        let w: Vec<&str> = op.split_whitespace().collect();
        let text = match (w.first(), render_cfg(&w)) {
            (Some(&"cfg"), Some(t)) => t,
            _ => {
                run.end_op("bad-op");
                continue;
            }
        };
        match toml::from_str::<Config>(&text) {
            Err(e) => {
                let _ = e.to_string();
                run.hit("load-error");
                run.end_op("err");
            }
            Ok(cfg) => {
                threshold_oracle(&cfg, run);
                let base = &cfg.synchronization.synchronization_base;
                let accum = base.accumulated_step_panic_threshold.map(|d| dur_raw(d).to_string()).unwrap_or_else(|| "none".to_string());
                let head = format!(
                    "ok single={} startup={} accum={}",
                    thr_str(&base.single_step_panic_threshold),
                    thr_str(&base.startup_step_panic_threshold),
                    accum
                );
                // `check()` (and `count_sources`) may panic: caught by the case guard
                let count = cfg.count_sources();
                let ok = cfg.check();
                run.hit(if ok { "load-ok-check-ok" } else { "load-ok-check-warn" });
                run.nontrivial(&format!("{}|{}|{}", head.len(), count.min(20), ok));
                run.end_op(&format!("{} count={} check={}", head, count, ok as u8));
            }
        }
    }
}

// ---------------------------------------------------------------------------------- c39_docs

fn repo_root() -> std::path::PathBuf {
    std::path::PathBuf::from(std::env::var("VERIF_REPO").unwrap_or_else(|_| "..".to_string()))
}

fn collect_files(dir: &std::path::Path, out: &mut Vec<std::path::PathBuf>) {
    let Ok(rd) = std::fs::read_dir(dir) else { return };
    let mut entries: Vec<_> = rd.flatten().map(|e| e.path()).collect();
    entries.sort();
    for p in entries {
        let name = p.file_name().and_then(|n| n.to_str()).unwrap_or("");
        if p.is_dir() {
            if name != "target" && name != ".git" && name != "node_modules" {
                collect_files(&p, out);
            }
        } else if name.ends_with(".toml") || name.ends_with(".md") {
            out.push(p);
        }
    }
}

/// every TOML document of the repository: `*.toml` files that are daemon configs (not Cargo manifests) and
/// ```toml blocks of the docs.  (path relative to the repo, block index, text)
fn corpus() -> &'static Vec<(String, usize, String)> {
    static CORPUS: std::sync::OnceLock<Vec<(String, usize, String)>> = std::sync::OnceLock::new();
    CORPUS.get_or_init(read_corpus)
}

fn read_corpus() -> Vec<(String, usize, String)> {
    let root = repo_root();
    let mut files = vec![];
    for sub in ["docs", "config", "pkg", "ntpd", "utils"] {
        collect_files(&root.join(sub), &mut files);
    }
    for f in ["ntp.toml", "ntp.server.toml"] {
        files.push(root.join(f));
    }
    let mut out = vec![];
    for p in files {
        let Ok(text) = std::fs::read_to_string(&p) else { continue };
        let rel = p.strip_prefix(&root).unwrap_or(&p).display().to_string();
        if rel.ends_with(".toml") {
            if rel.ends_with("Cargo.toml") || rel.ends_with("deny.toml") || rel.ends_with("Cross.toml") || rel.ends_with("clippy.toml") {
                continue;
            }
            out.push((rel, 0, text));
        } else {
            let mut idx = 0;
            let mut cur: Option<String> = None;
            for line in text.lines() {
                let l = line.trim_start();
                match &mut cur {
                    None => {
                        if l.starts_with("```toml") {
                            cur = Some(String::new());
                        }
                    }
                    Some(buf) => {
                        if l.starts_with("```") {
                            out.push((rel.clone(), idx, cur.take().unwrap()));
                            idx += 1;
                        } else {
                            buf.push_str(line);
                            buf.push('\n');
                        }
                    }
                }
            }
        }
    }
    out
}

const REPLACEMENTS: &[&str] = &[
    "nan", "inf", "-inf", "+inf", "-nan", "-1", "-1.0", "-0.0", "0", "0.0", "1e300", "-1e300", "1e-320", "9223372036854775807",
    "-9223372036854775808", "9223372036854775808", "18446744073709551615", "4294967296", "\"inf\"", "\"str\"", "\"\"", "{}",
    "[]", "{ forward = -1.0 }", "{ forward = nan }", "{ backward = inf }", "{ forward = \"inf\", backward = -0.5 }", "true", "1979-05-27",
];

/// positions (start, end) of numeric / quoted-string / boolean value tokens after a `=`
fn value_tokens(text: &str) -> Vec<(usize, usize)> {
    let mut out = vec![];
    let mut off = 0;
    for line in text.split_inclusive('\n') {
        if let Some(eq) = line.find('=') {
            let rest = &line[eq + 1..];
            let lead = rest.len() - rest.trim_start().len();
            let body = rest.trim();
            let body = body.split('#').next().unwrap_or("").trim_end();
            if !body.is_empty() && !line.trim_start().starts_with('#') {
                out.push((off + eq + 1 + lead, off + eq + 1 + lead + body.len()));
            }
        }
        off += line.len();
    }
    out
}

fn mutate(rng: &mut Rng, base: &str) -> String {
    let mut text = base.to_string();
    let rounds = if rng.chance(2, 3) { 1 } else { rng.usize(2, 3) };
    for _ in 0..rounds {
        match rng.below(10) {
            0..=5 => {
                let toks = value_tokens(&text);
                if toks.is_empty() {
                    continue;
                }
                let (a, b) = *rng.pick(&toks);
                if text.is_char_boundary(a) && text.is_char_boundary(b) {
                    text.replace_range(a..b, *rng.pick(REPLACEMENTS));
                }
            }
            6 => {
                let lines: Vec<&str> = text.lines().collect();
                if lines.is_empty() {
                    continue;
                }
                let i = rng.usize(0, lines.len() - 1);
                let mut l: Vec<String> = lines.iter().map(|s| s.to_string()).collect();
                if rng.chance(1, 2) {
                    l.remove(i);
                } else {
                    let d = l[i].clone();
                    l.insert(i, d);
                }
                text = l.join("\n");
            }
            7 => {
                // add a threshold line to the synchronization section (or create it)
                let field = rng.pick(&["single-step-panic-threshold", "startup-step-panic-threshold", "accumulated-step-panic-threshold", "minimum-agreeing-sources", "local-stratum"]);
                let line = format!("{} = {}\n", field, rng.pick(REPLACEMENTS));
                if let Some(p) = text.find("[synchronization]\n") {
                    text.insert_str(p + "[synchronization]\n".len(), &line);
                } else {
                    text.push_str(&format!("\n[synchronization]\n{}", line));
                }
            }
            8 => {
                let mut bytes = text.clone().into_bytes();
                if bytes.is_empty() {
                    continue;
                }
                let n = rng.usize(1, 4);
                for _ in 0..n {
                    let i = rng.usize(0, bytes.len() - 1);
                    bytes[i] = *rng.pick(b"=[]{}\"'.,-+0123456789 \n#einfa");
                }
                text = String::from_utf8_lossy(&bytes).to_string();
            }
            _ => {
                text.push_str(&format!(
                    "\n[[source]]\nmode = \"{}\"\naddress = \"x.test\"\ncount = {}\n",
                    rng.pick(&["pool", "nts-pool"]),
                    rng.pick(&["9223372036854775807", "-1", "0", "4", "1e3", "nan", "18446744073709551615"])
                ));
            }
        }
    }
    text
}

fn gen_docs_case(rng: &mut Rng, idx: u64, run: &Run) -> Vec<String> {
    let _ = run;
    let docs = corpus();
    assert!(docs.len() >= 10, "config corpus not found under VERIF_REPO ({} documents)", docs.len());
    // first: every document unmodified
    if (idx as usize) < docs.len() {
        let (rel, i, _) = &docs[idx as usize];
        return vec![format!("file {}#{}", rel, i)];
    }
    if rng.chance(1, 12) {
        let n = rng.usize(0, 200);
        let junk = rng.bytes(n);
        return vec![format!("text {}", hex(&junk))];
    }
    // mutate mostly documents that load unmodified (otherwise nearly every mutant is rejected for the base's reason)
    static LOADABLE: std::sync::OnceLock<Vec<usize>> = std::sync::OnceLock::new();
    let loadable = LOADABLE.get_or_init(|| {
        (0..docs.len()).filter(|i| std::panic::catch_unwind(|| toml::from_str::<Config>(&docs[*i].2).is_ok()).unwrap_or(false)).collect()
    });
    let base = if !loadable.is_empty() && rng.chance(9, 10) { &docs[*rng.pick(loadable)].2 } else { &rng.pick(docs).2 };
    vec![format!("text {}", hex(mutate(rng, base).as_bytes()))]
}

fn exec_docs_case(ops: &[String], run: &mut Run) {
    for op in ops {
        run.begin_op(op);
        let w: Vec<&str> = op.split_whitespace().collect();
        let (text, unmodified) = match w.as_slice() {
            ["file", spec] => {
                let Some((rel, i)) = spec.rsplit_once('#') else {
                    run.end_op("bad-op");
                    continue;
                };
                let i: usize = i.parse().unwrap_or(usize::MAX);
                match corpus().iter().find(|(r, k, _)| r == rel && *k == i) {
                    Some((_, _, t)) => (t.clone(), true),
                    None => {
                        run.end_op("bad-op");
                        continue;
                    }
                }
            }
            ["text", h] => match unhex(h) {
                Some(b) => (String::from_utf8_lossy(&b).to_string(), false),
                None => {
                    run.end_op("bad-op");
                    continue;
                }
            },
            _ => {
                run.end_op("bad-op");
                continue;
            }
        };
        // a panic anywhere below is caught by the case guard and reported (clause=panic)
        match toml::from_str::<Config>(&text) {
            Err(_) => {
                run.hit(if unmodified { "doc-rejected" } else { "mutant-rejected" });
                run.end_op("err");
            }
            Ok(cfg) => {
                threshold_oracle(&cfg, run);
                let ok = cfg.check();
                run.hit(if unmodified { "doc-loaded" } else { "mutant-loaded" });
                let base = &cfg.synchronization.synchronization_base;
                run.nontrivial(&format!(
                    "{}|{}|{}|{}",
                    thr_str(&base.single_step_panic_threshold),
                    thr_str(&base.startup_step_panic_threshold),
                    cfg.sources.len(),
                    cfg.servers.len()
                ));
                run.end_op(&format!("ok check={}", ok as u8));
            }
        }
    }
}

#[test]
fn entry() {
    let stream = std::env::var("VERIF_STREAM").unwrap_or_default();
    match stream.as_str() {
        "c39_cfg" => common::drive(
            "c39_cfg",
            "daemon configurations rendered to TOML and loaded with toml::from_str::<Config> + Config::check(): single/startup step thresholds absent | number | string | bool | table with forward/backward/misspelt keys (values: NaN, +-inf, negatives, -0, subnormal, 1e300, i32/i64 limits, 'inf' and near misses), accumulated threshold, minimum-agreeing-sources (incl. -1, i64::MAX), 0-5 sources (server, nts, sock, pool / nts-pool with counts 0..6, -1, 2^62, i64::MAX-1, i64::MAX); non-trivial = configuration loaded; distinct by (shape, count, verdict)",
            gen_cfg_case,
            exec_cfg_case,
        ),
        "c39_docs" => common::drive(
            "c39_docs",
            "every TOML config file and ```toml block of the repository (docs/, config/, pkg/, ntp.toml, ntp.server.toml) unmodified, then mutants: value tokens replaced by {nan, +-inf, -1, -0.0, 1e300, i64/u64 limits, strings, tables, arrays, dates, per-direction tables with bad numbers}, lines deleted / duplicated, threshold lines injected, byte edits, pool sources with extreme counts, and random bytes; oracle: no panic, loaded thresholds sane; non-trivial = loaded; distinct by (thresholds, #sources, #servers)",
            gen_docs_case,
            exec_docs_case,
        ),
        other => panic!("unknown VERIF_STREAM {:?}", other),
    }
}
