//! verification harness module included into `ntpd/src/daemon/config/mod.rs` (guarded hook), property C39.
//! Grandchild of `crate::daemon::config`: sees `Config`, the private `count_sources`, `check`.
//!
//! Streams (VERIF_STREAM):
//!   c39_cfg  — structured daemon configurations (threshold fields in every form, the accumulated threshold,
//!              minimum-agreeing-sources, a list of sources incl. pools with boundary counts) rendered to TOML,
//!              loaded with the REAL `toml::from_str::<Config>` and checked with `Config::check()`; the Lean
//!              model predicts accept/reject, the stored thresholds, the source count and the check verdict
//!   c39_docs — no-crash stream (no model): every TOML file and ```toml block of the repository's docs, the
//!              same documents with numeric / string tokens replaced by {nan, inf, -inf, -1, -0.0, 1e300, i64
//!              limits, strings, tables, arrays}, line deletions / duplications, and random byte edits
#![allow(clippy::all, clippy::pedantic)]

#[path = "../common/mod.rs"]
mod common;

use super::super::*;
use common::{hex, kv, unhex, Rng, Run};
use ntp_proto::{NtpDuration, NtpTimestamp, StepThreshold};

fn ts_raw(t: NtpTimestamp) -> u64 {
    serde_json::to_value(t).unwrap()["timestamp"].as_u64().unwrap()
}

/// raw i64 of an `NtpDuration` (`0 - d` on timestamps is `0u64.wrapping_sub(d as u64)`)
fn dur_raw(d: NtpDuration) -> i64 {
    let zero: NtpTimestamp = serde_json::from_value(serde_json::json!({ "timestamp": 0u64 })).unwrap();
    0u64.wrapping_sub(ts_raw(zero - d)) as i64
}

// ------------------------------------------------------------------ value syntax shared with c39_thr

/// scalar text form  f:<16 hex>  i:<dec>  s:<hex utf8>  b  m      table  t:k=v;k=v   absent  -
fn toml_scalar(s: &str) -> Option<String> {
    if s == "b" {
        return Some("true".to_string());
    }
    if s == "m" {
        return Some("{}".to_string());
    }
    let (k, r) = s.split_once(':')?;
    match k {
        "f" => {
            let f = f64::from_bits(u64::from_str_radix(r, 16).ok()?);
            Some(if f.is_nan() {
                "nan".to_string()
            } else if f.is_infinite() {
                if f > 0.0 { "inf".to_string() } else { "-inf".to_string() }
            } else {
                let t = format!("{:?}", f);
                // TOML needs a digit after the dot and no bare exponent-less integers for floats
                if t.contains('.') || t.contains('e') || t.contains("inf") || t.contains("NaN") { t } else { format!("{}.0", t) }
            })
        }
        "i" => Some(r.parse::<i64>().ok()?.to_string()),
        "s" => {
            let text = String::from_utf8(unhex(r)?).ok()?;
            if !text.chars().all(|c| c.is_ascii_alphanumeric() || " .-_+".contains(c)) {
                return None;
            }
            Some(format!("\"{}\"", text))
        }
        _ => None,
    }
}

fn toml_value(s: &str) -> Option<String> {
    if let Some(r) = s.strip_prefix("t:") {
        if r == "-" {
            return Some("{}".to_string());
        }
        let mut parts = vec![];
        for part in r.split(';') {
            let (k, x) = part.split_once('=')?;
            if !k.chars().all(|c| c.is_ascii_alphanumeric() || c == '-' || c == '_') || k.is_empty() {
                return None;
            }
            parts.push(format!("{} = {}", k, toml_scalar(x)?));
        }
        Some(format!("{{ {} }}", parts.join(", ")))
    } else {
        toml_scalar(s)
    }
}

fn gen_f64(rng: &mut Rng) -> f64 {
    const S: &[u64] = &[
        0x7ff8000000000000, 0x7ff0000000000000, 0xfff0000000000000, 0x0000000000000000, 0x8000000000000000,
        0x0000000000000001, 0xbff0000000000000, 0x3ff0000000000000, 0x408f400000000000, 0x40f5180000000000,
        0x7fefffffffffffff, 0xffefffffffffffff, 0x7e37e43c8800759c, 0x41dfffffffc00000, 0x41e0000000000000,
        0xc1e0000000000000, 0x3df0000000000000, 0xbdf0000000000000, 0x3fefffffffffffff,
    ];
    match rng.below(8) {
        0..=2 => f64::from_bits(*rng.pick(S)),
        3 => {
            let f = f64::from_bits(rng.next_u64());
            if f.is_nan() { f64::NAN } else { f }
        }
        4 => -(rng.f64_unit() * (2.0f64).powi(rng.range(-40, 40) as i32)),
        _ => rng.f64_unit() * (2.0f64).powi(rng.range(-34, 34) as i32),
    }
}

fn gen_scalar(rng: &mut Rng) -> String {
    match rng.below(14) {
        0..=7 => format!("f:{:016x}", gen_f64(rng).to_bits()),
        8 => format!("i:{}", rng.pick(&[0i64, 1, -1, 1000, i64::MAX, i64::MIN, i32::MAX as i64, i32::MAX as i64 + 1, i32::MIN as i64 - 1])),
        9 => format!("i:{}", rng.next_u64() as i64 >> rng.below(64)),
        10 => format!("s:{}", hex(b"inf")),
        11 => format!("s:{}", hex(rng.pick(&["Inf", "-inf", "nan", "", "1.0"]).as_bytes())),
        12 => "b".to_string(),
        _ => "m".to_string(),
    }
}

fn gen_threshold(rng: &mut Rng) -> String {
    match rng.below(10) {
        0..=1 => "-".to_string(),
        2..=4 => gen_scalar(rng),
        _ => {
            let n = match rng.below(8) {
                0 => 0,
                1..=3 => 1,
                _ => 2,
            };
            if n == 0 {
                return "t:-".to_string();
            }
            let mut keys = vec!["forward", "backward"];
            if rng.chance(1, 2) {
                keys.reverse();
            }
            if rng.chance(1, 12) {
                keys[0] = *rng.pick(&["Forward", "forwards", "back"]);
            }
            let parts: Vec<String> = keys.iter().take(n).map(|k| format!("{}={}", k, gen_scalar(rng))).collect();
            format!("t:{}", parts.join(";"))
        }
    }
}

fn gen_cfg_case(rng: &mut Rng, idx: u64, _run: &Run) -> Vec<String> {
    // design-time witnesses first (F-C39)
    match idx {
        0 => return vec!["cfg single=t:forward=f:bff0000000000000 startup=- accum=- min=- src=-".to_string()],
        1 => return vec!["cfg single=t:forward=f:7ff8000000000000 startup=- accum=- min=- src=-".to_string()],
        2 => return vec!["cfg single=- startup=t:backward=f:7ff0000000000000 accum=- min=- src=-".to_string()],
        3 => return vec!["cfg single=- startup=- accum=- min=- src=p9223372036854775807,p9223372036854775807,p9223372036854775807".to_string()],
        _ => {}
    }
    let single = gen_threshold(rng);
    let startup = gen_threshold(rng);
    let accum = match rng.below(6) {
        0..=2 => "-".to_string(),
        _ => gen_scalar(rng),
    };
    let min = match rng.below(10) {
        0..=3 => "-".to_string(),
        4 => "-1".to_string(),
        5 => rng.pick(&["0", "1", "3", "4", "5", "9223372036854775807"]).to_string(),
        _ => rng.usize(0, 12).to_string(),
    };
    let nsrc = match rng.below(8) {
        0 => 0,
        _ => rng.usize(1, 5),
    };
    let mut src = vec![];
    for _ in 0..nsrc {
        src.push(match rng.below(10) {
            0..=2 => "s".to_string(),
            3 => "n".to_string(),
            4 => "k".to_string(),
            5 => "p".to_string(), // default count
            6 => format!("{}{}", rng.pick(&["p", "q"]), rng.pick(&["0", "1", "2", "4", "-1", "9223372036854775807", "9223372036854775806", "4611686018427387904"])),
            _ => format!("{}{}", rng.pick(&["p", "q"]), rng.usize(0, 6)),
        });
    }
    vec![format!(
        "cfg single={} startup={} accum={} min={} src={}",
        single,
        startup,
        accum,
        min,
        common::comma_list(&src)
    )]
}

fn render_cfg(w: &[&str]) -> Option<String> {
    let mut t = String::from("[synchronization]\n");
    let fields = [
        ("single", "single-step-panic-threshold"),
        ("startup", "startup-step-panic-threshold"),
        ("accum", "accumulated-step-panic-threshold"),
    ];
    for (k, name) in fields {
        let v = kv(w, k)?;
        if v != "-" {
            t.push_str(&format!("{} = {}\n", name, toml_value(v)?));
        }
    }
    let min = kv(w, "min")?;
    if min != "-" {
        t.push_str(&format!("minimum-agreeing-sources = {}\n", min.parse::<i64>().ok()?));
    }
    let src = kv(w, "src")?;
    if src != "-" {
        for (i, s) in src.split(',').enumerate() {
            t.push_str("\n[[source]]\n");
            let (kind, arg) = s.split_at(1);
            match kind {
                "s" => t.push_str(&format!("mode = \"server\"\naddress = \"s{}.test:123\"\n", i)),
                "n" => t.push_str(&format!("mode = \"nts\"\naddress = \"n{}.test:4460\"\n", i)),
                "k" => t.push_str(&format!("mode = \"sock\"\npath = \"/verif/sock{}\"\nprecision = 0.001\n", i)),
                "p" | "q" => {
                    let mode = if kind == "p" { "pool" } else { "nts-pool" };
                    t.push_str(&format!("mode = \"{}\"\naddress = \"p{}.test\"\n", mode, i));
                    if !arg.is_empty() {
                        t.push_str(&format!("count = {}\n", arg.parse::<i64>().ok()?));
                    }
                }
                _ => return None,
            }
            if kind != "p" && kind != "q" && !arg.is_empty() {
                return None;
            }
        }
    }
    Some(t)
}

fn thr_str(t: &StepThreshold) -> String {
    let o = |x: Option<NtpDuration>| x.map(|d| dur_raw(d).to_string()).unwrap_or_else(|| "none".to_string());
    format!("{}/{}", o(t.forward), o(t.backward))
}

/// the property's clause on a loaded configuration, evaluated directly
fn threshold_oracle(cfg: &Config, run: &mut Run) {
    let base = &cfg.synchronization.synchronization_base;
    for (name, t) in [("single", &base.single_step_panic_threshold), ("startup", &base.startup_step_panic_threshold)] {
        for (dir, d) in [("forward", t.forward), ("backward", t.backward)] {
            if let Some(d) = d {
                if d < NtpDuration::ZERO {
                    run.oracle_fail(
                        "accepted_threshold_sane",
                        &format!("field={} dir={}", name, dir),
                        &format!("accepted {}-step-panic-threshold.{} is negative ({} units)", name, dir, dur_raw(d)),
                    );
                }
            }
        }
    }
}

fn exec_cfg_case(ops: &[String], run: &mut Run) {
    for op in ops {
        run.begin_op(op);
        let w: Vec<&str> = op.split_whitespace().collect();
        let text = match (w.first(), render_cfg(&w)) {
            (Some(&"cfg"), Some(t)) => t,
            _ => {
                run.end_op("bad-op");
                continue;
            }
        };
        match toml::from_str::<Config>(&text) {
            Err(e) => {
                let _ = e.to_string();
                run.hit("load-error");
                run.end_op("err");
            }
            Ok(cfg) => {
                threshold_oracle(&cfg, run);
                let base = &cfg.synchronization.synchronization_base;
                let accum = base.accumulated_step_panic_threshold.map(|d| dur_raw(d).to_string()).unwrap_or_else(|| "none".to_string());
                let head = format!(
                    "ok single={} startup={} accum={}",
                    thr_str(&base.single_step_panic_threshold),
                    thr_str(&base.startup_step_panic_threshold),
                    accum
                );
                // `check()` (and `count_sources`) may panic: caught by the case guard
                let count = cfg.count_sources();
                let ok = cfg.check();
                run.hit(if ok { "load-ok-check-ok" } else { "load-ok-check-warn" });
                run.nontrivial(&format!("{}|{}|{}", head.len(), count.min(20), ok));
                run.end_op(&format!("{} count={} check={}", head, count, ok as u8));
            }
        }
    }
}

// ---------------------------------------------------------------------------------- c39_docs

fn repo_root() -> std::path::PathBuf {
    std::path::PathBuf::from(std::env::var("VERIF_REPO").unwrap_or_else(|_| "..".to_string()))
}

fn collect_files(dir: &std::path::Path, out: &mut Vec<std::path::PathBuf>) {
    let Ok(rd) = std::fs::read_dir(dir) else { return };
    let mut entries: Vec<_> = rd.flatten().map(|e| e.path()).collect();
    entries.sort();
    for p in entries {
        let name = p.file_name().and_then(|n| n.to_str()).unwrap_or("");
        if p.is_dir() {
            if name != "target" && name != ".git" && name != "node_modules" {
                collect_files(&p, out);
            }
        } else if name.ends_with(".toml") || name.ends_with(".md") {
            out.push(p);
        }
    }
}

/// every TOML document of the repository: `*.toml` files that are daemon configs (not Cargo manifests) and
/// ```toml blocks of the docs.  (path relative to the repo, block index, text)
fn corpus() -> &'static Vec<(String, usize, String)> {
    static CORPUS: std::sync::OnceLock<Vec<(String, usize, String)>> = std::sync::OnceLock::new();
    CORPUS.get_or_init(read_corpus)
}

fn read_corpus() -> Vec<(String, usize, String)> {
    let root = repo_root();
    let mut files = vec![];
    for sub in ["docs", "config", "pkg", "ntpd", "utils"] {
        collect_files(&root.join(sub), &mut files);
    }
    for f in ["ntp.toml", "ntp.server.toml"] {
        files.push(root.join(f));
    }
    let mut out = vec![];
    for p in files {
        let Ok(text) = std::fs::read_to_string(&p) else { continue };
        let rel = p.strip_prefix(&root).unwrap_or(&p).display().to_string();
        if rel.ends_with(".toml") {
            if rel.ends_with("Cargo.toml") || rel.ends_with("deny.toml") || rel.ends_with("Cross.toml") || rel.ends_with("clippy.toml") {
                continue;
            }
            out.push((rel, 0, text));
        } else {
            let mut idx = 0;
            let mut cur: Option<String> = None;
            for line in text.lines() {
                let l = line.trim_start();
                match &mut cur {
                    None => {
                        if l.starts_with("```toml") {
                            cur = Some(String::new());
                        }
                    }
                    Some(buf) => {
                        if l.starts_with("```") {
                            out.push((rel.clone(), idx, cur.take().unwrap()));
                            idx += 1;
                        } else {
                            buf.push_str(line);
                            buf.push('\n');
                        }
                    }
                }
            }
        }
    }
    out
}

const REPLACEMENTS: &[&str] = &[
    "nan", "inf", "-inf", "+inf", "-nan", "-1", "-1.0", "-0.0", "0", "0.0", "1e300", "-1e300", "1e-320", "9223372036854775807",
    "-9223372036854775808", "9223372036854775808", "18446744073709551615", "4294967296", "\"inf\"", "\"str\"", "\"\"", "{}",
    "[]", "{ forward = -1.0 }", "{ forward = nan }", "{ backward = inf }", "{ forward = \"inf\", backward = -0.5 }", "true", "1979-05-27",
];

/// positions (start, end) of numeric / quoted-string / boolean value tokens after a `=`
fn value_tokens(text: &str) -> Vec<(usize, usize)> {
    let mut out = vec![];
    let mut off = 0;
    for line in text.split_inclusive('\n') {
        if let Some(eq) = line.find('=') {
            let rest = &line[eq + 1..];
            let lead = rest.len() - rest.trim_start().len();
            let body = rest.trim();
            let body = body.split('#').next().unwrap_or("").trim_end();
            if !body.is_empty() && !line.trim_start().starts_with('#') {
                out.push((off + eq + 1 + lead, off + eq + 1 + lead + body.len()));
            }
        }
        off += line.len();
    }
    out
}

fn mutate(rng: &mut Rng, base: &str) -> String {
    let mut text = base.to_string();
    let rounds = if rng.chance(2, 3) { 1 } else { rng.usize(2, 3) };
    for _ in 0..rounds {
        match rng.below(10) {
            0..=5 => {
                let toks = value_tokens(&text);
                if toks.is_empty() {
                    continue;
                }
                let (a, b) = *rng.pick(&toks);
                if text.is_char_boundary(a) && text.is_char_boundary(b) {
                    text.replace_range(a..b, *rng.pick(REPLACEMENTS));
                }
            }
            6 => {
                let lines: Vec<&str> = text.lines().collect();
                if lines.is_empty() {
                    continue;
                }
                let i = rng.usize(0, lines.len() - 1);
                let mut l: Vec<String> = lines.iter().map(|s| s.to_string()).collect();
                if rng.chance(1, 2) {
                    l.remove(i);
                } else {
                    let d = l[i].clone();
                    l.insert(i, d);
                }
                text = l.join("\n");
            }
            7 => {
                // add a threshold line to the synchronization section (or create it)
                let field = rng.pick(&["single-step-panic-threshold", "startup-step-panic-threshold", "accumulated-step-panic-threshold", "minimum-agreeing-sources", "local-stratum"]);
                let line = format!("{} = {}\n", field, rng.pick(REPLACEMENTS));
                if let Some(p) = text.find("[synchronization]\n") {
                    text.insert_str(p + "[synchronization]\n".len(), &line);
                } else {
                    text.push_str(&format!("\n[synchronization]\n{}", line));
                }
            }
            8 => {
                let mut bytes = text.clone().into_bytes();
                if bytes.is_empty() {
                    continue;
                }
                let n = rng.usize(1, 4);
                for _ in 0..n {
                    let i = rng.usize(0, bytes.len() - 1);
                    bytes[i] = *rng.pick(b"=[]{}\"'.,-+0123456789 \n#einfa");
                }
                text = String::from_utf8_lossy(&bytes).to_string();
            }
            _ => {
                text.push_str(&format!(
                    "\n[[source]]\nmode = \"{}\"\naddress = \"x.test\"\ncount = {}\n",
                    rng.pick(&["pool", "nts-pool"]),
                    rng.pick(&["9223372036854775807", "-1", "0", "4", "1e3", "nan", "18446744073709551615"])
                ));
            }
        }
    }
    text
}

fn gen_docs_case(rng: &mut Rng, idx: u64, run: &Run) -> Vec<String> {
    let _ = run;
    let docs = corpus();
    assert!(docs.len() >= 10, "config corpus not found under VERIF_REPO ({} documents)", docs.len());
    // first: every document unmodified
    if (idx as usize) < docs.len() {
        let (rel, i, _) = &docs[idx as usize];
        return vec![format!("file {}#{}", rel, i)];
    }
    if rng.chance(1, 12) {
        let n = rng.usize(0, 200);
        let junk = rng.bytes(n);
        return vec![format!("text {}", hex(&junk))];
    }
    // mutate mostly documents that load unmodified (otherwise nearly every mutant is rejected for the base's reason)
    static LOADABLE: std::sync::OnceLock<Vec<usize>> = std::sync::OnceLock::new();
    let loadable = LOADABLE.get_or_init(|| {
        (0..docs.len()).filter(|i| std::panic::catch_unwind(|| toml::from_str::<Config>(&docs[*i].2).is_ok()).unwrap_or(false)).collect()
    });
    let base = if !loadable.is_empty() && rng.chance(9, 10) { &docs[*rng.pick(loadable)].2 } else { &rng.pick(docs).2 };
    vec![format!("text {}", hex(mutate(rng, base).as_bytes()))]
}

fn exec_docs_case(ops: &[String], run: &mut Run) {
    for op in ops {
        run.begin_op(op);
        let w: Vec<&str> = op.split_whitespace().collect();
        let (text, unmodified) = match w.as_slice() {
            ["file", spec] => {
                let Some((rel, i)) = spec.rsplit_once('#') else {
                    run.end_op("bad-op");
                    continue;
                };
                let i: usize = i.parse().unwrap_or(usize::MAX);
                match corpus().iter().find(|(r, k, _)| r == rel && *k == i) {
                    Some((_, _, t)) => (t.clone(), true),
                    None => {
                        run.end_op("bad-op");
                        continue;
                    }
                }
            }
            ["text", h] => match unhex(h) {
                Some(b) => (String::from_utf8_lossy(&b).to_string(), false),
                None => {
                    run.end_op("bad-op");
                    continue;
                }
            },
            _ => {
                run.end_op("bad-op");
                continue;
            }
        };
        // a panic anywhere below is caught by the case guard and reported (clause=panic)
        match toml::from_str::<Config>(&text) {
            Err(_) => {
                run.hit(if unmodified { "doc-rejected" } else { "mutant-rejected" });
                run.end_op("err");
            }
            Ok(cfg) => {
                threshold_oracle(&cfg, run);
                let ok = cfg.check();
                run.hit(if unmodified { "doc-loaded" } else { "mutant-loaded" });
                let base = &cfg.synchronization.synchronization_base;
                run.nontrivial(&format!(
                    "{}|{}|{}|{}",
                    thr_str(&base.single_step_panic_threshold),
                    thr_str(&base.startup_step_panic_threshold),
                    cfg.sources.len(),
                    cfg.servers.len()
                ));
                run.end_op(&format!("ok check={}", ok as u8));
            }
        }
    }
}


// ---------------------------------------------------------------------------------- c39_sweep

/// One numeric (or number-like) field of the configuration grammar: (id, model kind, valid value, document
/// with `@@` where the value goes; everything else in the document is valid).
/// model kind: "interval" (csptp poll/response interval), "positive" (sock / pps precision …), "domain",
/// "thr" (StepThreshold), "accum" (accumulated threshold), "" (serde / toml decide: not modelled)
fn sweep_fields() -> &'static Vec<(String, &'static str, &'static str, String)> {
    static F: std::sync::OnceLock<Vec<(String, &'static str, &'static str, String)>> = std::sync::OnceLock::new();
    F.get_or_init(|| {
        let mut v: Vec<(String, &'static str, &'static str, String)> = vec![];
        let mut add = |id: &str, kind: &'static str, valid: &'static str, doc: &str| v.push((id.to_string(), kind, valid, doc.to_string()));
        let src = |mode: &str, extra: &str| format!("[[source]]\nmode = \"{}\"\n{}", mode, extra);
        // ---- sources: every mode, every numeric field
        for (mode, addr) in [("server", "address = \"a.test:123\"\n"), ("pool", "address = \"p.test\"\n"), ("nts", "address = \"n.test:4460\"\n"), ("nts-pool", "address = \"q.test\"\n")] {
            add(&format!("{}.ntp-version", mode), "", "i:4", &src(mode, &format!("{}ntp-version = @@\n", addr)));
            if mode == "pool" || mode == "nts-pool" {
                add(&format!("{}.count", mode), "", "i:4", &src(mode, &format!("{}count = @@\n", addr)));
            }
        }
        for (f, valid) in [("precision", "f:3f50624dd2f1a9fc"), ("accuracy", "f:3f50624dd2f1a9fc"), ("measurement_noise_estimate", "f:3f50624dd2f1a9fc")] {
            let base = if f == "precision" || f == "measurement_noise_estimate" { String::new() } else { "precision = 0.001\n".to_string() };
            add(&format!("sock.{}", f), "positive", valid, &src("sock", &format!("path = \"/verif/sock\"\n{}{} = @@\n", base, f)));
        }
        for (f, valid) in [("precision", "f:3f50624dd2f1a9fc"), ("accuracy", "f:3f50624dd2f1a9fc"), ("measurement_noise_estimate", "f:3f50624dd2f1a9fc"), ("period", "f:3ff0000000000000")] {
            let base = if f == "precision" || f == "measurement_noise_estimate" { String::new() } else { "precision = 0.001\n".to_string() };
            add(&format!("pps.{}", f), "positive", valid, &src("pps", &format!("path = \"/verif/pps\"\n{}{} = @@\n", base, f)));
        }
        add("csptp.domain", "domain", "i:128", &src("csptp", "address = \"c.test\"\ndomain = @@\n"));
        add("csptp.poll_interval", "interval", "f:3ff0000000000000", &src("csptp", "address = \"c.test\"\npoll_interval = @@\n"));
        add("csptp.response_interval", "interval", "f:4014000000000000", &src("csptp", "address = \"c.test\"\nresponse_interval = @@\n"));
        // ---- [[server]], [[nts-ke-server]]
        for (f, valid) in [("rate-limiting-cache-size", "i:32"), ("rate-limiting-cutoff-ms", "i:1000")] {
            add(&format!("server.{}", f), "", valid, &format!("[[server]]\nlisten = \"127.0.0.1:123\"\n{} = @@\n", f));
        }
        add("server.accept-ntp-versions", "", "i:4", "[[server]]\nlisten = \"127.0.0.1:123\"\naccept-ntp-versions = [@@]\n");
        for (f, valid) in [("key-exchange-timeout-ms", "i:1000"), ("concurrent-connections", "i:512"), ("longlived-connections", "i:5"), ("ntp-port", "i:123")] {
            add(&format!("nts-ke-server.{}", f), "", valid, &format!("[[server]]\nlisten = \"127.0.0.1:123\"\n\n[[nts-ke-server]]\nlisten = \"127.0.0.1:4460\"\ncertificate-chain-path = \"/verif/c.pem\"\nprivate-key-path = \"/verif/k.pem\"\n{} = @@\n", f));
        }
        add("nts-ke-server.accept-ntp-versions", "", "i:4", "[[server]]\nlisten = \"127.0.0.1:123\"\n\n[[nts-ke-server]]\nlisten = \"127.0.0.1:4460\"\ncertificate-chain-path = \"/verif/c.pem\"\nprivate-key-path = \"/verif/k.pem\"\naccept-ntp-versions = [@@]\n");
        // ---- [observability], [keyset], [csptp], [source-defaults]
        add("observability.observation-permissions", "", "i:438", "[observability]\nobservation-permissions = @@\n");
        add("observability.ansi-colors", "", "b", "[observability]\nansi-colors = @@\n");
        add("keyset.stale-key-count", "", "i:7", "[keyset]\nstale-key-count = @@\n");
        add("keyset.key-rotation-interval", "", "i:86400", "[keyset]\nkey-rotation-interval = @@\n");
        add("csptp-section.priority-1", "", "i:128", "[csptp]\npriority-1 = @@\n");
        add("csptp-section.priority-2", "", "i:128", "[csptp]\npriority-2 = @@\n");
        add("source-defaults.poll-interval-limits.min", "", "i:4", "[source-defaults]\npoll-interval-limits = { min = @@, max = 10 }\n");
        add("source-defaults.poll-interval-limits.max", "", "i:10", "[source-defaults]\npoll-interval-limits = { min = 4, max = @@ }\n");
        add("source-defaults.initial-poll-interval", "", "i:4", "[source-defaults]\ninitial-poll-interval = @@\n");
        // ---- [synchronization] incl. the algorithm parameters
        add("synchronization.minimum-agreeing-sources", "", "i:3", "[synchronization]\nminimum-agreeing-sources = @@\n");
        add("synchronization.local-stratum", "", "i:16", "[synchronization]\nlocal-stratum = @@\n");
        add("synchronization.single-step-panic-threshold", "thr", "f:408f400000000000", "[synchronization]\nsingle-step-panic-threshold = @@\n");
        add("synchronization.startup-step-panic-threshold", "thr", "f:408f400000000000", "[synchronization]\nstartup-step-panic-threshold = @@\n");
        add("synchronization.single-step-panic-threshold.forward", "part", "f:408f400000000000", "[synchronization]\nsingle-step-panic-threshold = { forward = @@, backward = 5.0 }\n");
        add("synchronization.startup-step-panic-threshold.backward", "part", "f:408f400000000000", "[synchronization]\nstartup-step-panic-threshold = { backward = @@ }\n");
        add("synchronization.accumulated-step-panic-threshold", "accum", "f:409c200000000000", "[synchronization]\naccumulated-step-panic-threshold = @@\n");
        add("synchronization.reference-id", "", "s:475053", "[synchronization]\nreference-id = @@\n");
        for f in ["precision-low-probability", "precision-high-probability", "precision-minimum-weight", "poll-interval-low-weight", "poll-interval-high-weight", "poll-interval-step-threshold", "delay-outlier-threshold", "initial-wander", "initial-frequency-uncertainty", "maximum-source-uncertainty", "range-statistical-weight", "range-delay-weight", "steer-offset-threshold", "steer-offset-leftover", "steer-frequency-threshold", "steer-frequency-leftover", "step-threshold", "slew-maximum-frequency-offset", "slew-minimum-duration", "maximum-frequency-steer", "meddling-threshold"] {
            add(&format!("synchronization.algorithm.{}", f), "", "f:3fb999999999999a", &format!("[synchronization.algorithm]\n{} = @@\n", f));
        }
        for f in ["precision-hysteresis", "poll-interval-hysteresis"] {
            add(&format!("synchronization.algorithm.{}", f), "", "i:16", &format!("[synchronization.algorithm]\n{} = @@\n", f));
        }
        v
    })
}

/// the extreme values every field is set to in turn (scalar syntax of this harness)
const EXTREMES: &[&str] = &[
    "f:7ff8000000000000", // nan
    "f:7ff0000000000000", // +inf
    "f:fff0000000000000", // -inf
    "i:-1",
    "f:bff0000000000000", // -1.0
    "f:8000000000000000", // -0.0
    "i:0",
    "f:0000000000000000", // 0.0
    "f:01a56e1fc2f8f359", // 1e-300
    "f:0000000000000001", // smallest subnormal
    "f:43e158e460913d00", // 1e19
    "f:43ef3931e7c10000", // 1.8e19
    "f:43efffffffffffff", // largest double below 2^64
    "f:43f0000000000000", // 2^64
    "f:4415af1d78b58c40", // 1e20
    "f:7e37e43c8800759c", // 1e300
    "f:7fefffffffffffff", // f64::MAX
    "i:9223372036854775807",
    "i:-9223372036854775808",
    "u:18446744073709551615", // above every TOML integer
    "i:127",
    "i:128",
    "i:239",
    "i:240",
    "i:255",
    "i:256",
    "i:65535",
    "i:65536",
    "i:4294967296",
    "s:696e66",   // "inf"
    "s:737472",   // "str"
    "s:",         // ""
    "m",          // {}
    "t:a=i:1",    // { a = 1 }
    "a",          // []
    "b",          // true
];

/// scalar syntax of the sweep: the c39_cfg syntax plus `u:<dec>` (bare big integer) and `a` (empty array)
fn sweep_toml(s: &str) -> Option<String> {
    if s == "a" {
        return Some("[]".to_string());
    }
    if let Some(r) = s.strip_prefix("u:") {
        return if !r.is_empty() && r.chars().all(|c| c.is_ascii_digit()) { Some(r.to_string()) } else { None };
    }
    if s == "s:" {
        return Some("\"\"".to_string());
    }
    toml_value(s)
}

fn sweep_doc(field: &str, values: &[(String, String)]) -> Option<(String, &'static str)> {
    // `values`: (field id, scalar) pairs; the first decides the model kind; further pairs are appended documents
    let fields = sweep_fields();
    let mut text = String::new();
    let mut kind = "";
    for (i, (fid, val)) in values.iter().enumerate() {
        let (_, k, _, doc) = fields.iter().find(|(id, _, _, _)| id == fid)?;
        if i == 0 {
            kind = *k;
        }
        // array / table headers of later fragments may repeat: TOML allows repeated [[x]] but not repeated [x];
        // a repeated table is a parse error, which is a legitimate (rejected) document
        text.push_str(&doc.replace("@@", &sweep_toml(val)?));
        text.push('\n');
    }
    let _ = field;
    Some((text, kind))
}

fn gen_sweep_case(rng: &mut Rng, idx: u64, _run: &Run) -> Vec<String> {
    let fields = sweep_fields();
    let nf = fields.len() as u64;
    let ne = EXTREMES.len() as u64;
    // always-run corpus: every template with its valid value, then every field x every extreme
    if idx < nf {
        let (id, _, valid, _) = &fields[idx as usize];
        return vec![format!("sweep {}={}", id, valid)];
    }
    let k = idx - nf;
    if k < nf * ne {
        let (id, _, _, _) = &fields[(k / ne) as usize];
        return vec![format!("sweep {}={}", id, EXTREMES[(k % ne) as usize])];
    }
    // then: random numbers in every field, and two extremes in one document
    let (id, _, _, _) = rng.pick(fields);
    let val = match rng.below(6) {
        0 => rng.pick(EXTREMES).to_string(),
        1 => format!("i:{}", rng.next_u64() as i64 >> rng.below(64)),
        2 => format!("f:{:016x}", { let f = f64::from_bits(rng.next_u64()); if f.is_nan() { f64::NAN.to_bits() } else { f.to_bits() } }),
        3 => format!("f:{:016x}", (rng.f64_unit() * (2.0f64).powi(rng.range(50, 80) as i32)).to_bits()),
        4 => format!("f:{:016x}", (-(rng.f64_unit()) * (2.0f64).powi(rng.range(-70, 70) as i32)).to_bits()),
        _ => format!("f:{:016x}", (rng.f64_unit() * (2.0f64).powi(rng.range(-1080, 64) as i32)).to_bits()),
    };
    if rng.chance(1, 4) {
        let (id2, _, _, _) = rng.pick(fields);
        return vec![format!("sweep {}={} {}={}", id, val, id2, rng.pick(EXTREMES))];
    }
    vec![format!("sweep {}={}", id, val)]
}

fn exec_sweep_case(ops: &[String], run: &mut Run) {
    for op in ops {
        run.begin_op(op);
        let w: Vec<&str> = op.split_whitespace().collect();
        if w.first() != Some(&"sweep") || w.len() < 2 {
            run.end_op("bad-op");
            continue;
        }
        let mut values = vec![];
        for part in &w[1..] {
            match part.split_once('=') {
                Some((f, v)) => values.push((f.to_string(), v.to_string())),
                None => values.clear(),
            }
        }
        let Some((text, kind)) = (if values.is_empty() { None } else { sweep_doc(&values[0].0, &values) }) else {
            run.end_op("bad-op");
            continue;
        };
        let single = values.len() == 1;
        let is_valid_template = single && sweep_fields().iter().any(|(id, _, valid, _)| *id == values[0].0 && *valid == values[0].1);
        // the direct oracle: loading returns Ok or Err, it never panics (so the report carries the TOML text)
        let res = std::panic::catch_unwind(|| {
            toml::from_str::<Config>(&text).map(|cfg| {
                let ok = cfg.check();
                (cfg, ok)
            })
        });
        match res {
            Err(p) => {
                let msg = p.downcast_ref::<String>().cloned().or_else(|| p.downcast_ref::<&str>().map(|s| s.to_string())).unwrap_or_default();
                run.oracle_fail(
                    "load_never_panics",
                    &format!("field={}", values[0].0),
                    &format!("loading this configuration panicked ({}): {}", msg, text.replace('\n', "\\n")),
                );
                run.hit("PANIC");
                run.end_op("panic");
            }
            Ok(Err(e)) => {
                if is_valid_template {
                    run.oracle_fail("template_valid", &format!("field={}", values[0].0), &format!("the all-valid document of this field is rejected ({}): {}", e.to_string().replace('\n', " "), text.replace('\n', "\\n")));
                }
                run.hit(&format!("{}-rejected", if kind.is_empty() { "unmodelled" } else { kind }));
                // fields whose validation is the repository's own decision logic are compared with the model
                run.end_op(if single && !kind.is_empty() { "err" } else { "-" });
            }
            Ok(Ok((cfg, _ok))) => {
                threshold_oracle(&cfg, run);
                run.hit(&format!("{}-loaded", if kind.is_empty() { "unmodelled" } else { kind }));
                run.nontrivial(&format!("{}|{}", values[0].0, values[0].1));
                run.end_op(if single && !kind.is_empty() { "ok" } else { "-" });
            }
        }
    }
}

#[test]
fn entry() {
    let stream = std::env::var("VERIF_STREAM").unwrap_or_default();
    match stream.as_str() {
        "c39_cfg" => common::drive(
            "c39_cfg",
            "daemon configurations rendered to TOML and loaded with toml::from_str::<Config> + Config::check(): single/startup step thresholds absent | number | string | bool | table with forward/backward/misspelt keys (values: NaN, +-inf, negatives, -0, subnormal, 1e300, i32/i64 limits, 'inf' and near misses), accumulated threshold, minimum-agreeing-sources (incl. -1, i64::MAX), 0-5 sources (server, nts, sock, pool / nts-pool with counts 0..6, -1, 2^62, i64::MAX-1, i64::MAX); non-trivial = configuration loaded; distinct by (shape, count, verdict)",
            gen_cfg_case,
            exec_cfg_case,
        ),
        "c39_sweep" => common::drive(
            "c39_sweep",
            "every numeric / number-like field of every source mode (server, pool, nts, nts-pool, sock, pps, csptp) and of the [[server]], [[nts-ke-server]], [observability], [keyset], [csptp], [source-defaults], [synchronization] and [synchronization.algorithm] sections: first the all-valid document of each field, then each field set in turn to each of 36 extremes (nan, +-inf, -1, -0.0, 0, 1e-300, subnormal, 1e19, 1.8e19, 2^64 and its predecessor, 1e20, 1e300, f64::MAX, i64 limits, u64::MAX, 255/256/65535/65536/2^32, strings, tables, array, bool) with the rest of the document valid, then random numbers per field and pairs of extremes; direct oracle: toml::from_str::<Config> + check() return, never panic (catch_unwind, report carries the TOML text); fields validated by the repository's own code (csptp intervals and domain, sock/pps positives, thresholds) are compared with the model; non-trivial = loaded; distinct by (field, value)",
            gen_sweep_case,
            exec_sweep_case,
        ),
        "c39_docs" => common::drive(
            "c39_docs",
            "every TOML config file and ```toml block of the repository (docs/, config/, pkg/, ntp.toml, ntp.server.toml) unmodified, then mutants: value tokens replaced by {nan, +-inf, -1, -0.0, 1e300, i64/u64 limits, strings, tables, arrays, dates, per-direction tables with bad numbers}, lines deleted / duplicated, threshold lines injected, byte edits, pool sources with extreme counts, and random bytes; oracle: no panic, loaded thresholds sane; non-trivial = loaded; distinct by (thresholds, #sources, #servers)",
            gen_docs_case,
            exec_docs_case,
        ),
        other => panic!("unknown VERIF_STREAM {:?}", other),
    }
}
