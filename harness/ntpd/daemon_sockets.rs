//! verification harness module included into `ntpd/src/daemon/sockets.rs` (guarded hook).
