//! verification harness module included into `ntpd/src/daemon/keyexchange.rs` (guarded hook).
