//! verification harness module included into `ntpd/src/daemon/spawn/standard.rs` (guarded hook), property C36.
//!
//! Stream `c36_std`: the REAL `StandardSpawner` called directly (try_spawn / handle_source_removed in any
//! order) with a scripted DNS answer per call (through the project's cfg(test) hard-coded DNS helper; the
//! rotation is compensated) — resolver errors, empty answers, addresses to which no UDP socket can be
//! connected (probed by the harness with the very function the code uses and handed to the model as a
//! `+`/`-` flag: read back, never predicted).
//!
//! Op lines (model input)                              observation
//!   cfg                                               ok
//!   spawn dns=<ip.port+,ip.port-,..|-|fail>           spawned=<ip.port|-> complete=<0|1> lookup=<0|1|?>
//!   remove reason=<D|N|U>                             complete=<0|1>
//! `lookup` is observed through the rotation of the helper's list; `?` when that is invisible (resolver
//! error, fewer than two addresses, all addresses equal).
//!
//! Oracle (property, no model): no_respawn_after_demobilize (is_complete stays true across Demobilized
//! removals, so the pacing loop will not call try_spawn), reresolve after=U (next spawn looks the name up
//! and uses the first connectable address of the NEW answer), after=N (no lookup, same address).
#![allow(clippy::all, clippy::pedantic)]

#[path = "../common/mod.rs"]
mod common;

use super::super::*;
use crate::daemon::config::{NormalizedAddress, NtpAddress, StandardSource};
use crate::daemon::spawn::SourceCreateParameters;
use common::{kv, Rng, Run};
use ntp_proto::ProtocolVersion;
use std::net::{IpAddr, Ipv4Addr, Ipv6Addr, SocketAddr};
use std::sync::OnceLock;

fn runtime() -> &'static tokio::runtime::Runtime {
    static RT: OnceLock<tokio::runtime::Runtime> = OnceLock::new();
    RT.get_or_init(|| tokio::runtime::Builder::new_current_thread().enable_all().build().expect("tokio runtime"))
}

fn ip_of(k: u64) -> IpAddr {
    match k {
        10 => IpAddr::V4(Ipv4Addr::new(255, 255, 255, 255)),
        11 => IpAddr::V4(Ipv4Addr::new(192, 0, 2, 1)),
        12 => IpAddr::V6(Ipv6Addr::LOCALHOST),
        13 => IpAddr::V6(Ipv6Addr::new(0x2001, 0xdb8, 0, 0, 0, 0, 0, 1)),
        k => IpAddr::V4(Ipv4Addr::new(127, 0, 1, k as u8)),
    }
}

fn key_of(ip: IpAddr) -> u64 {
    for k in 10..=13 {
        if ip_of(k) == ip {
            return k;
        }
    }
    match ip {
        IpAddr::V4(a) => a.octets()[3] as u64,
        IpAddr::V6(_) => 99,
    }
}

fn parse_addr(w: &str) -> SocketAddr {
    let w = w.trim_end_matches(|c| c == '+' || c == '-');
    let (ip, port) = w.split_once('.').expect("ip.port");
    SocketAddr::new(ip_of(ip.parse().expect("ip key")), port.parse().expect("port"))
}

fn show_addr(a: &SocketAddr) -> String {
    format!("{}.{}", key_of(a.ip()), a.port())
}

fn connectable(a: SocketAddr) -> bool {
    timestamped_socket::socket::connect_address(a, timestamped_socket::socket::GeneralTimestampMode::None).is_ok()
}

fn gen_answer(rng: &mut Rng) -> String {
    match rng.below(16) {
        0 => return "fail".to_string(),
        1 => return "-".to_string(),
        _ => {}
    }
    let n = rng.usize(1, 4);
    let v: Vec<String> = (0..n)
        .map(|_| {
            let ip = if rng.chance(1, 4) { rng.below(4) + 10 } else { rng.below(4) + 1 };
            format!("{}.123", ip)
        })
        .collect();
    v.join(",")
}

fn corpus(idx: u64) -> Option<Vec<String>> {
    let v: Vec<&str> = match idx {
        0 => vec![
            "cfg",
            "spawn dns=1.123,2.123",
            "remove reason=D",
            "remove reason=D",
            "remove reason=N",
            "spawn dns=3.123,4.123",
            "remove reason=U",
            "spawn dns=3.123,4.123",
            "remove reason=U",
            "remove reason=N",
            "spawn dns=fail",
            "spawn dns=-",
            "spawn dns=10.123,2.123",
        ],
        _ => return None,
    };
    Some(v.into_iter().map(String::from).collect())
}

fn gen_std_case(rng: &mut Rng, idx: u64, _run: &Run) -> Vec<String> {
    if let Some(c) = corpus(idx) {
        return c;
    }
    let mut ops = vec!["cfg".to_string()];
    let n = rng.usize(3, 24);
    // mostly the protocol of spawner_task (try_spawn only while incomplete), sometimes arbitrary calls
    let disciplined = rng.chance(3, 4);
    let mut maybe_complete = false;
    for _ in 0..n {
        let spawn = if disciplined { !maybe_complete || rng.chance(1, 12) } else { rng.chance(1, 2) };
        if spawn {
            let a = gen_answer(rng);
            maybe_complete = a != "fail" && a != "-";
            ops.push(format!("spawn dns={}", a));
        } else {
            let r = *rng.pick(&["D", "D", "N", "N", "U", "U", "U"]);
            if r != "D" {
                maybe_complete = false;
            }
            ops.push(format!("remove reason={}", r));
        }
    }
    ops.push(format!("spawn dns={}", gen_answer(rng)));
    ops
}

fn exec_std_case(ops: &[String], run: &mut Run) {
    let rt = runtime();
    let (mut addr, script) = NormalizedAddress::verif_scripted_dns(123);
    addr.verif_dns_fail(Some(&script));
    let new_spawner = |addr: &NormalizedAddress| {
        StandardSpawner::new(
            StandardSource { address: NtpAddress(addr.clone()), ntp_version: ProtocolVersion::V4 },
            SourceConfig::default(),
        )
    };
    let mut spawner = new_spawner(&addr);
    let (action_tx, mut action_rx) = tokio::sync::mpsc::channel::<SpawnEvent>(64);
    // oracle state
    let mut last_addr: Option<SocketAddr> = None;
    let mut pending: Option<char> = None; // what the removals since the last spawn ask for
    let mut key = String::new();
    let mut respawns = 0;

    for op in ops {
        run.begin_op(op);
        let w: Vec<&str> = op.split_whitespace().collect();
        match w.as_slice() {
            ["cfg"] => {
                spawner = new_spawner(&addr);
                last_addr = None;
                pending = None;
                run.end_op("ok");
            }
            ["spawn", rest @ ..] => {
                let dns = kv(rest, "dns").expect("dns");
                let mut answer: Vec<SocketAddr> = vec![];
                let mut flags: Vec<bool> = vec![];
                let fail = dns == "fail";
                if fail {
                    spawner.config.address.0.verif_dns_fail(None);
                    run.hit("dns-fail");
                } else {
                    if dns != "-" {
                        answer = dns.split(',').map(parse_addr).collect();
                    }
                    flags = {
                        // the socket constructor needs a reactor
                        let _guard = rt.enter();
                        answer.iter().map(|a| connectable(*a)).collect()
                    };
                    spawner.config.address.0.verif_dns_fail(Some(&script));
                    NormalizedAddress::verif_set_answer(&script, &answer);
                    if answer.is_empty() {
                        run.hit("dns-empty");
                    }
                    if flags.iter().any(|f| !*f) {
                        run.hit(if flags.iter().all(|f| !*f) { "dns-none-connectable" } else { "dns-some-unconnectable" });
                    }
                }
                let resolved_op = if fail || answer.is_empty() {
                    op.clone()
                } else {
                    let parts: Vec<String> = answer
                        .iter()
                        .zip(&flags)
                        .map(|(a, f)| format!("{}{}", show_addr(a), if *f { '+' } else { '-' }))
                        .collect();
                    format!("spawn dns={}", parts.join(","))
                };
                let before = NormalizedAddress::verif_peek(&script);
                let was_complete = spawner.is_complete();
                rt.block_on(spawner.try_spawn(&action_tx)).expect("receiver is open");
                let after = NormalizedAddress::verif_peek(&script);
                let visible = !fail && {
                    let mut r = answer.clone();
                    if !r.is_empty() {
                        r.rotate_left(1);
                    }
                    r != answer
                };
                let looked_up = if visible { Some(after != before) } else { None };
                let mut events: Vec<SocketAddr> = vec![];
                while let Ok(ev) = action_rx.try_recv() {
                    if let SpawnAction::Create(SourceCreateParameters::Ntp(p)) = ev.action {
                        events.push(p.addr);
                    }
                }
                if events.len() > 1 {
                    run.oracle_fail("one_source", "", &format!("{} SpawnEvents from one try_spawn", events.len()));
                }
                if events.is_empty() != !spawner.is_complete() && !was_complete {
                    run.oracle_fail("complete_iff_spawned", "", &format!("{} events but is_complete = {}", events.len(), spawner.is_complete()));
                }
                let first_ok = answer.iter().zip(&flags).find(|(_, f)| **f).map(|(a, _)| *a);
                if let Some(a) = events.first() {
                    match pending {
                        Some('U') => {
                            if looked_up == Some(false) {
                                run.oracle_fail("reresolve", "after=U", "spawn after an Unreachable removal did not look the name up again");
                            }
                            if Some(*a) != first_ok {
                                run.oracle_fail("reresolve", "after=U", &format!("spawn after an Unreachable removal used {} although the new answer's first connectable address is {:?}", show_addr(a), first_ok.map(|x| show_addr(&x))));
                            }
                            run.hit("spawn-after-unreachable");
                            key.push('U');
                            respawns += 1;
                        }
                        Some('N') if last_addr.is_some() => {
                            if looked_up == Some(true) || Some(*a) != last_addr {
                                run.oracle_fail("reresolve", "after=N", &format!("spawn after a NetworkIssue removal looked the name up or changed the address to {}", show_addr(a)));
                            }
                            run.hit("spawn-after-network-issue");
                            key.push('N');
                            respawns += 1;
                        }
                        _ => {
                            run.hit(if was_complete { "spawn-while-complete" } else { "spawn-first" });
                            key.push('s');
                        }
                    }
                    last_addr = Some(*a);
                    pending = None;
                } else {
                    run.hit("spawn-nothing");
                    key.push('0');
                }
                let line = format!(
                    "spawned={} complete={} lookup={}",
                    events.first().map(show_addr).unwrap_or_else(|| "-".to_string()),
                    spawner.is_complete() as u8,
                    match looked_up {
                        Some(true) => "1",
                        Some(false) => "0",
                        None => "?",
                    }
                );
                run.end_op_as(&resolved_op, &line);
            }
            ["remove", rest @ ..] => {
                let reason = kv(rest, "reason").and_then(|r| r.chars().next()).unwrap_or('N');
                let was_complete = spawner.is_complete();
                rt.block_on(spawner.handle_source_removed(SourceRemovedEvent {
                    id: ClockId::new(),
                    reason: match reason {
                        'D' => SourceRemovalReason::Demobilized,
                        'U' => SourceRemovalReason::Unreachable,
                        _ => SourceRemovalReason::NetworkIssue,
                    },
                }))
                .expect("no error path");
                if reason == 'D' {
                    if was_complete && !spawner.is_complete() {
                        run.oracle_fail("no_respawn_after_demobilize", "", "is_complete() turned false on a Demobilized removal: the pacing loop would respawn the source");
                    }
                    run.hit("removed-D");
                } else {
                    if spawner.is_complete() {
                        run.oracle_fail("respawn_after_loss", "", &format!("is_complete() still true after a removal for reason {}", reason));
                    }
                    if reason == 'U' || pending != Some('U') {
                        pending = Some(reason);
                    }
                    run.hit(if reason == 'U' { "removed-U" } else { "removed-N" });
                }
                key.push(reason.to_ascii_lowercase());
                run.end_op(&format!("complete={}", spawner.is_complete() as u8));
            }
            _ => run.end_op("bad-op"),
        }
    }
    if respawns >= 1 {
        run.nontrivial(&key);
    }
}

#[test]
fn entry() {
    let stream = std::env::var("VERIF_STREAM").unwrap_or_default();
    match stream.as_str() {
        "c36_std" => common::drive(
            "c36_std",
            "real StandardSpawner, 4-25 direct calls: try_spawn with a scripted DNS answer (1-4 addresses incl. ones no UDP socket can be connected to, empty answer, resolver error) and removals for every reason, mostly following spawner_task's protocol (try_spawn only while incomplete), a quarter arbitrary; non-trivial = at least one respawn after a NetworkIssue/Unreachable removal; distinct by outcome/removal signature",
            gen_std_case,
            exec_std_case,
        ),
        other => panic!("unknown VERIF_STREAM {:?}", other),
    }
}
