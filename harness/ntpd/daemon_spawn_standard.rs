//! verification harness module included into `ntpd/src/daemon/spawn/standard.rs` (guarded hook).
